#!/usr/bin/env python3
# Regenerates section 13 of DESIGN.md from tools/design_status_template.md, the seeded metadata,
# the fix commits of /repo and the sizes of the sources.
import json, glob, re, subprocess, os
V = '/verif'
tpl = open(V + '/tools/design_status_template.md').read()

def wc(pattern):
    n = 0
    for f in glob.glob(pattern, recursive=True):
        n += sum(1 for _ in open(f, errors='replace'))
    return n
model = wc(V + '/lean/TwModel/**/*.lean') + wc(V + '/lean/TwSpec/*.lean') + wc(V + '/lean/Main.lean')
proofs = wc(V + '/lean/TwProofs/**/*.lean')
def count(pattern, rx):
    n = 0
    for f in glob.glob(pattern, recursive=True):
        n += len(re.findall(rx, open(f).read(), re.M))
    return n
thm_prop = count(V + '/lean/TwProofs/C*.lean', r'^theorem ') + count(V + '/lean/TwProofs/Facts.lean', r'^theorem ')
thm_lem = count(V + '/lean/TwProofs/Lemmas/*.lean', r'^theorem ')
ext = wc(V + '/go/cmd/extract/*.go'); har = wc(V + '/go/cmd/harness/*.go')
sizes = (f"Sizes: model, specification and driver {model/1000:.1f} k lines of Lean, proofs {proofs/1000:.1f} k ({thm_prop} theorems in the twenty\n"
         f"property files and `Facts.lean`, {thm_lem} lemmas under `Lemmas/`), extractor {ext/1000:.1f} k and harness {har/1000:.1f} k lines of Go.")

fixes = subprocess.check_output(['git', '-C', '/repo', 'log', '--reverse', '--format=%h %s', '0aa29a0..HEAD']).decode().strip().split('\n')
fixtab = "\n".join(f"| `{l.split(' ',1)[0]}` | {l.split(' ',1)[1]} |" for l in fixes)
tpl = re.sub(r"\| commit \| what \|\n\|---\|---\|\n(?:\|.*\|\n)+", "| commit | what |\n|---|---|\n" + fixtab + "\n", tpl)

rows = []
missed1 = []; nfi1 = []; missed3 = []; nfi3 = []; missed4 = []; nfi4 = []; missed5 = []; nfi5 = []; missed6 = []; nfi6 = []; missed7 = []; nfi7 = []; missed8 = []; nfi8 = []; missed9 = []; nfi9 = []; missed10 = []; nfi10 = []; missed11 = []; nfi11 = []
for f in sorted(glob.glob(V + '/seeded/*/meta.json')):
    m = json.load(open(f))
    ch = re.sub(r'^(Change|C\d\d change|#+)\s*\d*\s*[-:–—.]?\s*', '', m['change']).strip()
    ch = re.sub(r'\s+', ' ', ch)[:140]
    d = m['detection']
    now = 'VIOLATION, concrete replay' if d.get('concrete_failing_input_found') else ('VIOLATION no-failing-input-found' if d.get('detected') else 'missed')
    fr = d.get('first_run')
    if m['id'] == 'C19-2':
        first = 'missed'
    elif fr is None:
        first = 'caught'
    else:
        first = 'caught' if fr['concrete_failing_input_found'] else ('caught, no input' if fr['detected'] else 'missed')
    if m.get('round') == 8:
        if first == 'missed': missed8.append(m['id'])
        if first == 'caught, no input': nfi8.append(m['id'])
    if m.get('round') == 9:
        if first == 'missed': missed9.append(m['id'])
        if first == 'caught, no input': nfi9.append(m['id'])
    if m.get('round') == 10:
        if first == 'missed': missed10.append(m['id'])
        if first == 'caught, no input': nfi10.append(m['id'])
    if m.get('round') == 11:
        if first == 'missed': missed11.append(m['id'])
        if first == 'caught, no input': nfi11.append(m['id'])
    elif m.get('round') == 7:
        if first == 'missed': missed7.append(m['id'])
        if first == 'caught, no input': nfi7.append(m['id'])
    elif m.get('round') == 6:
        if first == 'missed': missed6.append(m['id'])
        if first == 'caught, no input': nfi6.append(m['id'])
    elif m.get('round') == 5:
        if first == 'missed': missed5.append(m['id'])
        if first == 'caught, no input': nfi5.append(m['id'])
    elif m.get('round') == 4:
        if first == 'missed': missed4.append(m['id'])
        if first == 'caught, no input': nfi4.append(m['id'])
    elif m.get('round') == 3:
        if first == 'missed': missed3.append(m['id'])
        if first == 'caught, no input': nfi3.append(m['id'])
    else:
        if first == 'missed': missed1.append(m['id'])
        if first == 'caught, no input': nfi1.append(m['id'])
    rows.append(f"| {m['id']} | {', '.join(m['files_touched'])} | {ch} | {first} | {now} |")
seedtab = "\n".join(rows)
stren = []
for f in sorted(glob.glob(V + '/seeded/*/meta.json')):
    m = json.load(open(f))
    sw = m['detection'].get('strengthened_with') or (m['detection'].get('note') if m['id'] == 'C19-2' else None)
    if sw:
        stren.append(f"* **{m['id']}** – {sw}")
seeded = f'''### 13.7 Seeded breaking changes and which checks catch them

Four hundred and forty changes, twenty-two per property, in eleven rounds.  Each was written by a fresh sub-agent that saw
only the text of one property and a scratch worktree (nothing from /verif), was asked for a
plausible maintainer edit that needs something specific to manifest, and was confirmed by hand in
a scratch worktree: applies to HEAD, builds, the whole existing suite passes, the demonstration
fails with the change and passes without it (the demonstrations of C15-4, C15-6, C15-8 and C15-14 need `-race`; five patches of earlier rounds that touch `nativeMapToObject` were rebased onto fix `7308254`, four of them and one of round 6 again onto fix `20fdb84`, and confirmed again).  They are kept
under `/verif/seeded/<id>/` (`patch.diff`, `demo_test.go`, `notes.md`, `meta.json`).  Each was
applied to /repo (`git -C /repo apply`), the quick check of its property run, and the tree
restored (`git -C /repo checkout -- .`, and `git clean` for the five changes that add files).  After round 11 the quick checks were run once more against the changes of rounds 1 to 5 with everything that had been added since (all 200 of them; those of the later rounds had been run last when their round was filed): every one of them is still reported, with a concrete failing input.

Round 1 (ids `-1`, `-2`): 39 of 40 caught at once; **C19-2** was missed.  Round 2 (ids `-3`, `-4`),
written after the checks had been tuned on round 1: 27 of 40 caught at once with a concrete failing
input, 4 caught only because a regenerated fact no longer matched ({', '.join(nfi1)}: reported with
`no-failing-input-found`), and 9 missed ({', '.join(m for m in missed1 if m != 'C19-2')}).  Every miss was a hole in a
generator or an oracle, none in a theorem; each was closed by adding the family named below, and
the clean tree still passes.

Round 3 (ids `-5`, `-6`) asked the sub-agents for changes that need a *specific* history, schedule,
size or spelling to show (caches, pools, single-flight, packed positions, natural sort orders,
"harmless generalisations" of a literal syntax).  {40 - len(missed3) - len(nfi3)} of 40 were caught at once with a concrete failing
input, {len(nfi3)} only as a broken obligation or correspondence without an exhibiting input ({', '.join(nfi3)}) and {len(missed3)}
were missed ({', '.join(missed3)}).  Again every miss was a hole in what the
generators produce or what the oracles look at.  The general lessons, beyond the individual
families listed below: (1) the worker now runs a fixed set of "poisoning" renders before every
request (a loop that fails after producing output, a refused data map, assignments without data, a
source that fails to parse) and evaluates every request twice, so state carried from one call to
the next shows as a wrong or unstable answer; (2) concurrent workloads run on a Template that has
rendered nothing yet, their baseline comes from a second Template loaded from the same tree, and the
calls are repeated after the concurrent phase; (3) history families come in two shapes, with and
without the operation issued first; (4) histories can change the file tree between loads; (5) the
cover table of C19 comes from the real `Position.Contains`, also on lines longer than 65535 bytes.

Round 4 (ids `-7`, `-8`) told the sub-agents what kind of harness guards the property (a randomised
differential harness over structured templates and data of moderate size, repeated and concurrent
renders, short histories) and asked them to aim *outside* it.  They did: {40 - len(missed4) - len(nfi4)} of 40 were caught at
once with a concrete failing input, {len(nfi4)} only as a broken obligation ({', '.join(nfi4)}) and {len(missed4)} were missed.
The carriers were: tables keyed by a 32-bit checksum (three agents independently), thresholds
(twelve nested scopes, 33 levels of `@dump`, 128 files, 1000 keys, five `@elseif` branches), names
and bytes that collide with something internal (`global`, `~` inside a name, `%` in a path, a
keyword followed by a digit, 0x85 / 0xA0, a lone carriage return, a byte order mark), letters whose
case forms change length, aliasing pointers in the data, a nil function value, loops without an init
clause, loading while strings are evaluated, and a `Content-Length` that is only wrong on a real
connection.  Each miss was closed by a family that covers the *class* (see the list below:
`checksum_twins` from a birthday search over seven checksums, `deep_scopes`, `deep_values`,
`big_containers`, `big_tree_several_faults`, `case_mapping_runes` over every cased letter with an
unusual mapping, `reserved_looking_keys`, `percent_in_paths`, `degenerate_names`, `cut_numbers`,
`directive_other_case`, the body "as a client receives it", the request kind `loadconc`, …), and
where the model had no word for the input it got one (nil function values, a fourth array
function, aliasing data values, relative `EvaluateFile`, `WRITE`/`RM`).

Round 5 (ids `-9`, `-10`) listed to the sub-agents everything the harness had learned so far and
asked for what is *still* outside.  {40 - len(missed5) - len(nfi5)} of 40 were caught at once with a concrete failing input, {len(nfi5)}
only as a broken obligation or correspondence ({', '.join(nfi5)}) and {len(missed5)} were missed.  This
round's carriers: state that a *failed* call of one particular kind leaves behind (a lexer pooled
while inside a directive, a loop buffer released twice), caches keyed by something that is almost
an identity (a token's position across files, the printed form of a slot body, `reflect.Type.String()`,
the spelling of a field that matched last time), values outside the everyday range (float literals
with 23 and 324 decimals, 2^63 as a float, U+FFFD, zero-width characters, embedded structs, index
brackets and component arguments that span lines), API use that is legal and rare (a configuration
struct reused by the caller, a symbolic link as the file to evaluate, a directory name asked for as a
template, functions called from the error page, a function that edits its argument, a function with a
memory).  One of the agents also reported a defect of the unchanged tree it had stumbled over — maps
with non-string keys, see fix `7308254` — which no generator of mine had produced because the data
language of the harness only had string keys.  What was added is listed below; the general lessons:
(6) the renders the worker performs before every request include rejected templates of every kind and
rotate, so that each is the last one before some request; (7) the worker scribbles over what it
passed to the API (the configuration struct) once the call has returned; (8) expected outputs are
attached to repetition families too, because twenty repetitions can agree and all be wrong.

Round 6 (ids `-11`, `-12`) went back to the plain request: no word about the harness, *realistic* small
edits of the kind a reviewer approves (an off-by-one while tidying, a flipped or loosened comparison,
a helper extracted with a slightly different meaning, a near-equivalent library call, a fix for one case
that breaks its neighbour), showing on inputs a user could really write.  This is the round that
measures what the accumulated machinery does against ordinary mistakes: {40 - len(missed6) - len(nfi6)} of 40 were caught at once
with a concrete failing input, {len(nfi6)} only as a broken obligation ({', '.join(nfi6)}) and {len(missed6)} were missed
({', '.join(missed6)}): strings of white space only as conditions, a struct that implements
`fmt.Stringer`, and nil slices / nil maps (which print like empty ones; only their length, their
iteration or `@dump` tell).  Writing the family for types with methods exposed a defect of the
unchanged tree (named scalar types, fix `20fdb84`).

Round 7 (ids `-13`, `-14`) repeated the plain request and added: not the first, most central spot — at
least one change in a helper, a constructor, a configuration or error path, and at least one about a
clause the statement mentions only in passing.  {40 - len(missed7) - len(nfi7)} of 40 were caught at once with a concrete failing
input, {len(nfi7)} only as a broken obligation and {len(missed7)} were missed ({', '.join(missed7)}): a comment
between two slots of a use, a printed array whose last element ends in a comma or a blank, an unknown
component written in a *layout* and reported with the page's path, `Response` writing the error details
into the caller's data map, a syntax error of a component file reported at its place of use, and function
names with digits refused at registration.  Two of the six were oracle weaknesses of mine (the data map
was only compared after single evaluations; a faulty file counted as identified by *any* template path),
four were inputs no generator wrote.

Round 8 (ids `-15`, `-16`) asked for one *performance* edit (a fast path, a reused buffer, memoisation,
a cheaper library call) and one small *new feature or convenience* (a new accepted spelling, a more
helpful message, a lenient mode) per property.  {40 - len(missed8) - len(nfi8)} of 40 were caught at once with a concrete failing input,
{len(nfi8)} only as a broken obligation ({', '.join(nfi8)}) and {len(missed8)} were missed ({', '.join(missed8)}): a
byte-order-mark check that slices files shorter than three bytes, an error page name trimmed by the
*characters* of the extension, template names cut by index when the template directory is the
working directory, and a debug-mode reload that forgets that layouts are not pages.

Round 9 (ids `-17`, `-18`) asked for one *bug fix or robustness hardening* for a neighbouring issue
(trimming or normalising an input, guarding a nil, tolerating a malformed construct, a friendlier
message) whose side effect breaks the property, and one *readability refactor* with no intended
change of behaviour (a method extracted or inlined, a loop replaced by a library call, two near-duplicate
paths merged, an if-chain turned into a table).  {40 - len(missed9) - len(nfi9)} of 40 were caught at once with a concrete failing
input, {len(nfi9)} only as a broken correspondence ({', '.join(nfi9)}) and {len(missed9)} were missed ({', '.join(missed9)}): a
`fmt.Stringer` shortcut of the data conversion that calls `String()` on nil `*time.Time` / `*url.URL`
values, and a hand-written integer test that takes a lone sign for a number (`"-".decimal()`).  One
change of the round (C16, the path of a template read through the mode flag again) undoes the repair
`0bd9d10` of an earlier finding; the check reports it like any other violation (a `fixed` entry of the
known-findings file suppresses nothing).

Round 10 (ids `-19`, `-20`) asked for *minimal* slips only, at most three changed lines each: a flipped
or loosened comparison, an off-by-one, two arguments or variables of one type swapped, a wrong constant or
field, a dropped negation, `&&` for `||`, a missing `return`, the wrong one of two similarly named
helpers — classic mutation testing, with the sub-agent choosing spots where the existing tests do not
look.  {40 - len(missed10) - len(nfi10)} of 40 were caught at once with a concrete failing input, {len(nfi10)} only as a broken
obligation or correspondence ({', '.join(nfi10)}) and {len(missed10)} were not reported by the first run ({', '.join(missed10)}): a
render that writes the escaped text back into the string literal node (only a second render of the
same page shows it) was missed, and the check of the change that makes the parser spin on every
unfinished block had to be stopped after 48 minutes.

Round 11 (ids `-21`, `-22`) asked for two kinds of commit that reviewers wave through: change 1 a
*modernisation or clean-up refactor* (a hand-written loop replaced by a helper of the standard library —
`strings.Cut`, `strings.NewReplacer`, `slices.Compact`, `reflect.VisibleFields`, generics, `append` for
`make`+`copy` —, a switch rewritten as a table, two helpers folded into one), change 2 a small *new feature*
squeezed into existing code (octal and hex literals, `@if (x)` with a blank, `round(precision)`, a
"did you mean" hint, case-insensitive directives, snake_case aliases of built-ins, hidden files skipped,
`loop` inside `@for`, a component's path in its errors) that changes what templates without the feature
do.  {40 - len(missed11) - len(nfi11)} of 40 were caught at once with a concrete failing input, {len(nfi11)} only as a broken
obligation or correspondence ({', '.join(nfi11)}) and {len(missed11)} were missed ({', '.join(missed11)}): a blank
and a parenthesis at the start of a branch's text, and a slot passed twice with another slot in between.
Now all four hundred and forty are reported by the quick check of their own property with a concrete
failing input as replay.

What was added for the ones not caught (or caught without an input) at first:

{chr(10).join(stren)}

| id | touches | change | first run | now |
|---|---|---|---|---|
{seedtab}

### 13.8 What remains open

* C01: the `{{a}}` shorthand of object literals is outside the round trip; that the parser builds the
  same tree from two token lists that differ in positions only is shown on the printer's image.
* C03: the passes of a loop are computed for bodies of text and plain variables; for other bodies they
  are hypotheses of the relational description.
* C05: interleavings of text with code blocks other than `{{ name }}` and with directives as one theorem: the end-to-end theorems are per family (text with comments and prints; with `@if`/`@else`; with `@elseif` chains; with `@each`; a page with its layout; a page with its components; single `{{{{ … }}}}` blocks of one expression shape each — `k.f`, `k[d]`, `k[d].f`, `k.fn()`, `k.fn(d)`, `k.fn("s")`, `d`, `-d`, `(d)`, `a op b`, `a op1 b op2 d`, `a op1 (b op2 d)`, `k ? a : b`, `k ? a : j ? b : d`, `"a" + 'b'`, `n = d`, `n = a op b` followed by `n` — that stand alone, without text around them; `text_code_text` places any one-statement block between two runs of text and is instantiated for `k.f`, `k[d]`, `k.fn()` and `a op b`), each closed under repetition but not under nesting into one another; inside chains the texts exclude "{{", "@" and backslash, string literals in directive arguments exclude their own quote and the backslash.
* C11: numeric conversions against a real-number specification.
* the evaluator's fuel is a constant (10^5): theorems about whole renders carry a size bound.
'''
sec = tpl.replace('@@SIZES@@', sizes).replace('@@SEEDED@@', seeded)
s = open(V + '/DESIGN.md').read()
i = s.index("\n---------------------------------------------------------------------------------------------------\n\n## 13. Status")
j = s.index("## Appendix A.")
s = s[:i] + sec + "\n---------------------------------------------------------------------------------------------------\n\n" + s[j:]
open(V + '/DESIGN.md', 'w').write(s)
print("section 13 regenerated:", len(rows), "seeded rows,", len(fixes), "commits")
