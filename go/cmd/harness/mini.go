package main

// A small statement language with a reference interpreter that follows the statements of
// C02 (first truthy branch), C03 (loops, loop metadata, break/continue, @else) and C04 (block
// scoping, type stability, reserved "loop"). Programs are printed as Textwire templates and
// the interpreter's result is the oracle for what the implementation must render.

import (
	"fmt"
	"strconv"
	"strings"
)

type MV struct { // a value of the mini language
	T string // int str bool nil float arr obj err
	I int64
	S string
	B bool
	A []MV
}

func (v MV) truthy() bool {
	switch v.T {
	case "int":
		return v.I != 0
	case "str":
		return v.S != ""
	case "bool":
		return v.B
	case "nil":
		return false
	case "float":
		return v.S != "0.0" && v.S != "-0.0"
	}
	return true
}

func (v MV) show() string {
	switch v.T {
	case "int":
		return strconv.FormatInt(v.I, 10)
	case "str", "float":
		return v.S
	case "bool":
		if v.B {
			return "1"
		}
		return "0"
	case "arr":
		var ps []string
		for _, x := range v.A {
			ps = append(ps, x.show())
		}
		return strings.Join(ps, ", ")
	}
	return ""
}

func (v MV) lit() string { // source text of the value
	switch v.T {
	case "int":
		if v.I < 0 {
			return "(0 - " + strconv.FormatInt(-v.I, 10) + ")"
		}
		return strconv.FormatInt(v.I, 10)
	case "str":
		return strconv.Quote(v.S)
	case "float":
		return v.S
	case "bool":
		return strconv.FormatBool(v.B)
	case "nil":
		return "nil"
	case "arr":
		var ps []string
		for _, x := range v.A {
			ps = append(ps, x.lit())
		}
		return "[" + strings.Join(ps, ", ") + "]"
	case "obj":
		return "{}"
	}
	return "nosuchname"
}

type MX struct { // expression: literal, variable read, loop field, or a failing expression
	K string // lit var loop fail
	V MV
	N string
}

func (x MX) src() string {
	switch x.K {
	case "lit":
		return x.V.lit()
	case "var":
		return x.N
	case "loop":
		return "loop." + x.N
	}
	return "nosuchname"
}

type MS struct { // statement
	K     string // text print assign if each for break continue breakIf continueIf
	S     string
	X     MX
	N     string
	Conds []MX
	Bods  [][]*MS
	Else  []*MS // nil = absent
	HasEl bool
	Body  []*MS
	From  int64 // for: i = From; i < To (Up) or i > To (!Up); i++ / i-- / i = i ± Step
	To    int64
	Up    bool
	Step  int64 // 0: i++ / i--; k > 0: the post clause is the assignment i = i + k (Up) or i = i - k
}

func printStmts(ss []*MS, sb *strings.Builder) {
	for _, s := range ss {
		s.print(sb)
	}
}

func (s *MS) print(sb *strings.Builder) {
	switch s.K {
	case "text":
		sb.WriteString(s.S)
	case "print":
		sb.WriteString("{{ " + s.X.src() + " }}")
	case "assign":
		sb.WriteString("{{ " + s.N + " = " + s.X.src() + " }}")
	case "if":
		for i, c := range s.Conds {
			if i == 0 {
				sb.WriteString("@if(" + c.src() + ")")
			} else {
				sb.WriteString("@elseif(" + c.src() + ")")
			}
			printStmts(s.Bods[i], sb)
		}
		if s.HasEl {
			sb.WriteString("@else")
			printStmts(s.Else, sb)
		}
		sb.WriteString("@end")
	case "each":
		sb.WriteString("@each(" + s.N + " in " + s.X.src() + ")")
		printStmts(s.Body, sb)
		if s.HasEl {
			sb.WriteString("@else")
			printStmts(s.Else, sb)
		}
		sb.WriteString("@end")
	case "for":
		op, step := "<", s.N+"++"
		if !s.Up {
			op, step = ">", s.N+"--"
		}
		if s.Step > 0 {
			sign := "+"
			if !s.Up {
				sign = "-"
			}
			step = fmt.Sprintf("%s = %s %s %d", s.N, s.N, sign, s.Step)
		}
		sb.WriteString(fmt.Sprintf("@for(%s = %s; %s %s %s; %s)", s.N, MV{T: "int", I: s.From}.lit(), s.N, op, MV{T: "int", I: s.To}.lit(), step))
		printStmts(s.Body, sb)
		if s.HasEl {
			sb.WriteString("@else")
			printStmts(s.Else, sb)
		}
		sb.WriteString("@end")
	case "break":
		sb.WriteString("@break")
	case "continue":
		sb.WriteString("@continue")
	case "breakIf":
		sb.WriteString("@breakIf(" + s.X.src() + ")")
	case "continueIf":
		sb.WriteString("@continueIf(" + s.X.src() + ")")
	}
}

// ---- reference interpreter

type menv struct {
	scopes []map[string]MV
}

func (e *menv) get(n string) (MV, bool) {
	for i := len(e.scopes) - 1; i >= 0; i-- {
		if v, ok := e.scopes[i][n]; ok {
			return v, true
		}
	}
	return MV{}, false
}
func (e *menv) push() { e.scopes = append(e.scopes, map[string]MV{}) }
func (e *menv) pop()  { e.scopes = e.scopes[:len(e.scopes)-1] }
func (e *menv) set(n string, v MV) bool {
	if n == "loop" {
		return false
	}
	if old, ok := e.get(n); ok && old.T != v.T {
		return false
	}
	e.scopes[len(e.scopes)-1][n] = v
	return true
}

type msig int

const (
	sigNone msig = iota
	sigBreak
	sigCont
	sigErr
)

func (e *menv) eval(x MX) (MV, bool) {
	switch x.K {
	case "lit":
		return x.V, true
	case "var":
		return e.get(x.N)
	case "loop":
		l, ok := e.get("loop")
		if !ok || l.T != "obj" {
			return MV{}, false
		}
		for i := 0; i+1 < len(l.A); i += 2 {
			if l.A[i].S == x.N {
				return l.A[i+1], true
			}
		}
		return MV{}, false
	}
	return MV{}, false
}

func (e *menv) run(ss []*MS, out *strings.Builder) msig {
	for _, s := range ss {
		if sg := e.step(s, out); sg != sigNone {
			return sg
		}
	}
	return sigNone
}

func loopObjMV(i, n int) MV {
	return MV{T: "obj", A: []MV{{T: "str", S: "index"}, {T: "int", I: int64(i)}, {T: "str", S: "iter"}, {T: "int", I: int64(i + 1)},
		{T: "str", S: "first"}, {T: "bool", B: i == 0}, {T: "str", S: "last"}, {T: "bool", B: i == n-1}}}
}

func (e *menv) step(s *MS, out *strings.Builder) msig {
	switch s.K {
	case "text":
		out.WriteString(s.S)
	case "print":
		v, ok := e.eval(s.X)
		if !ok {
			return sigErr
		}
		out.WriteString(v.show())
	case "assign":
		v, ok := e.eval(s.X)
		if !ok || !e.set(s.N, v) {
			return sigErr
		}
	case "if":
		for i, c := range s.Conds {
			v, ok := e.eval(c)
			if !ok {
				return sigErr
			}
			if v.truthy() {
				e.push()
				sg := e.run(s.Bods[i], out)
				e.pop()
				return sg
			}
		}
		if s.HasEl {
			e.push()
			sg := e.run(s.Else, out)
			e.pop()
			return sg
		}
	case "each":
		e.push()
		defer e.pop()
		arr, ok := e.eval(s.X)
		if !ok || arr.T != "arr" {
			return sigErr
		}
		if len(arr.A) == 0 {
			if s.HasEl {
				return e.run(s.Else, out) // acts on the loop around this loop
			}
			return sigNone
		}
		for i, el := range arr.A {
			if !e.set(s.N, el) {
				return sigErr
			}
			e.scopes[len(e.scopes)-1]["loop"] = loopObjMV(i, len(arr.A))
			switch e.run(s.Body, out) {
			case sigBreak:
				return sigNone
			case sigErr:
				return sigErr
			}
		}
	case "for":
		e.push()
		defer e.pop()
		if !e.set(s.N, MV{T: "int", I: s.From}) {
			return sigErr
		}
		cond := func() bool {
			v, _ := e.get(s.N)
			if s.Up {
				return v.I < s.To
			}
			return v.I > s.To
		}
		if !cond() {
			if s.HasEl {
				return e.run(s.Else, out)
			}
			return sigNone
		}
		for cond() {
			switch e.run(s.Body, out) {
			case sigBreak:
				return sigNone
			case sigErr:
				return sigErr
			}
			v, _ := e.get(s.N)
			d := s.Step
			if d == 0 {
				d = 1
			}
			if s.Up {
				v.I += d
			} else {
				v.I -= d
			}
			if !e.set(s.N, v) {
				return sigErr
			}
		}
	case "break":
		return sigBreak
	case "continue":
		return sigCont
	case "breakIf", "continueIf":
		v, ok := e.eval(s.X)
		if !ok {
			return sigErr
		}
		if v.truthy() {
			if s.K == "breakIf" {
				return sigBreak
			}
			return sigCont
		}
	}
	return sigNone
}

// runMini renders the program; ok=false means the render must fail with an error
func runMini(prog []*MS, data map[string]MV) (string, bool) {
	e := &menv{scopes: []map[string]MV{{}}}
	for k, v := range data {
		e.scopes[0][k] = v
	}
	var out strings.Builder
	sg := e.run(prog, &out)
	if sg == sigErr {
		return "", false
	}
	return out.String(), true
}

func mvToGV(v MV) *GV {
	switch v.T {
	case "int":
		return gvInt(v.I)
	case "str":
		return gvStr(v.S)
	case "bool":
		return gvBool(v.B)
	case "nil":
		return gvNil()
	case "float":
		f, _ := strconv.ParseFloat(v.S, 64)
		return gvFloat(f)
	case "arr":
		g := gvList()
		for _, x := range v.A {
			g.Elems = append(g.Elems, mvToGV(x))
		}
		return g
	case "obj":
		return gvMap()
	}
	return gvNil()
}

func miniData(data map[string]MV) *GV {
	gd := gvMap()
	for _, k := range sortedKeys(data) {
		gd.Keys = append(gd.Keys, k)
		gd.Elems = append(gd.Elems, mvToGV(data[k]))
	}
	return gd
}

func miniCase(family string, prog []*MS, data map[string]MV) *Case {
	var sb strings.Builder
	printStmts(prog, &sb)
	gd := gvMap()
	for _, k := range sortedKeys(data) {
		gd.Keys = append(gd.Keys, k)
		gd.Elems = append(gd.Elems, mvToGV(data[k]))
	}
	c := evalCase(family, sb.String(), gd)
	want, ok := runMini(prog, data)
	if ok {
		c.Oracle = expectOut(want)
	} else {
		c.Oracle = func(c *Case, impl string) string {
			if strings.HasPrefix(impl, "ERR ") {
				return ""
			}
			return "the render must fail with an error (an erroring condition / expression is reached, or a name is re-typed), the implementation returned " + describe(impl)
		}
	}
	return c
}
