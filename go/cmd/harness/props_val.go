package main

// Families for C09 (no panics), C10 (escaping), C11 (built-ins), C12 (Go data).

import (
	"time"
	"unicode"
	"fmt"
	"html"
	"math"
	"reflect"
	"strconv"
	"strings"
	"unicode/utf8"
)

// ---------------------------------------------------------------------------------------------
// shared: receivers and argument pools for built-in calls (source text)

var recvPool = []string{`""`, `"abc"`, `"héllo wörld"`, `" x "`, `"12"`, `"-7"`, `"a,b,c"`, `"<b>&amp;"`, "0", "5", "(0 - 5)", "imax", "imin", "1.5", "(0.0 - 2.5)", "0.0", "2.0",
	"[]", "[1, 2, 3]", `["a", "b"]`, "[[1], [2, 3]]", "[1, \"a\", nil]", "true", "false", "nil", "{}", `{a: 1}`, "s2", "a3", "o1"}

var argPool = []string{"0", "1", "2", "3", "5", "(0 - 1)", "(0 - 4)", "imax", "imin", "16777217", `""`, `"."`, `"é"`, `","`, `"ab"`, "1.5", "true", "nil", "[]", "[1]", "{}", "s2", "a3"}

var builtinFns = []string{"len", "split", "raw", "trim", "trimRight", "trimLeft", "upper", "lower", "capitalize", "reverse", "contains", "truncate",
	"decimal", "at", "first", "last", "repeat", "join", "rand", "slice", "append", "prepend", "int", "str", "abs", "ceil", "floor", "round",
	"float", "binary", "then", "nosuch"}

func callSrc(recv, fn string, args []string) string {
	return "{{ " + recv + "." + fn + "(" + strings.Join(args, ", ") + ") }}"
}

// oracleNoCrash: output, or an error; errors raised while evaluating carry a line ≥ 1
func oracleNoCrash(c *Case, impl string) string {
	f := strings.Fields(impl)
	if len(f) == 0 {
		return "no answer"
	}
	if f[0] == "OK" {
		return ""
	}
	if f[0] == "ERR" && len(f) >= 2 {
		if n, err := strconv.Atoi(f[1]); err == nil {
			if n >= 1 {
				return ""
			}
			// line 0: only errors about the data map itself (conversion, reserved name)
			msg := ""
			if len(f) >= 4 {
				msg = unhx(f[3])
			}
			if strings.HasPrefix(msg, "unsupported type") || strings.Contains(msg, "loop variable is reserved") || strings.Contains(msg, "cannot assign variable") {
				return ""
			}
			return "an evaluation error without the line of the construct: " + describe(impl)
		}
	}
	return "neither output nor an error: " + clip(impl, 200)
}

func (g *Gen) untypedTemplate(sc *Scope, depth int) string {
	var sb strings.Builder
	n := 1 + g.n(4)
	for i := 0; i < n; i++ {
		e := func() string { return g.anyExpr(sc, 2).src(0, 0, g) }
		switch g.n(9) {
		case 0:
			sb.WriteString("t" + strconv.Itoa(i) + " ")
		case 1, 2:
			sb.WriteString("{{ " + e() + " }}")
		case 3:
			sb.WriteString("@if(" + e() + ")a@elseif(" + e() + ")b@else c@end")
		case 4:
			sb.WriteString("@each(q in " + e() + "){{ q }}@breakIf(" + e() + ")@end")
		case 5:
			sb.WriteString("@for(k = 0; k < 3; k++){{ " + e() + " }}@continueIf(" + e() + ")@end")
		case 6:
			sb.WriteString("@dump(" + e() + ", " + e() + ")")
		case 7:
			sb.WriteString("{{ w" + strconv.Itoa(g.n(2)) + " = " + e() + " }}")
		default:
			if depth > 0 {
				sb.WriteString("@if(true)" + g.untypedTemplate(sc, depth-1) + "@end")
			}
		}
	}
	return sb.String()
}

// caseRunes: the letters whose upper, lower or title form has another UTF-8 length, whose title form
// is not the upper form, and a sample of the remaining cased letters of every block
func caseRunes() []rune {
	var out []rune
	n := 0
	for r := rune(0x80); r <= 0x1FFFF; r++ {
		u, l, t := unicode.ToUpper(r), unicode.ToLower(r), unicode.ToTitle(r)
		if u == r && l == r && t == r {
			continue
		}
		n++
		if utf8.RuneLen(u) != utf8.RuneLen(r) || utf8.RuneLen(l) != utf8.RuneLen(r) || utf8.RuneLen(t) != utf8.RuneLen(r) || t != u || n%9 == 0 {
			out = append(out, r)
		}
	}
	return out
}

// nested: a value nested `depth` levels deep (lists, or objects under the key k)
func nestedGV(depth int, obj bool) *GV {
	v := gvInt(1)
	for i := 0; i < depth; i++ {
		if obj {
			v = gvMap("k", v)
		} else {
			v = gvList(v)
		}
	}
	return v
}

func nestedLit(depth int, obj bool) string {
	if obj {
		return strings.Repeat("{k: ", depth) + "1" + strings.Repeat("}", depth)
	}
	return strings.Repeat("[", depth) + "1" + strings.Repeat("]", depth)
}

func casesC09(g *Gen) []*Case {
	var cs []*Case
	sc := stdScope()
	add := func(fam, src string, data *GV) {
		c := evalCase(fam, src, data)
		c.Oracle = oracleNoCrash
		cs = append(cs, c)
	}
	// the faults named by the statement
	named := []string{
		"{{ 5 % 0 }}", "{{ i7 % i0 }}", "@dump(5 % 0)", "@each(q in [1])@continueIf(1 % 0)@end", "{{ i7.x }}", "{{ s1.x }}", "{{ a3.x }}", "{{ nn.x }}", "{{ bt.x }}", "{{ f1.x }}",
		"@each(q in 7)x@end", "@each(q in nn)x@end", "@each(q in s1)x@end", "@each(q in o1)x@end", `{{ {}[""] }}`, `{{ o1[""] }}`, `{{ o1[s0] }}`,
		`{{ "héllo".truncate(0 - 1) }}`, `{{ "abc".at(0 - 4) }}`, `{{ "a".repeat(0 - 1) }}`, `{{ "ab".repeat(imax) }}`, `{{ "ab".repeat(4611686018427387904) }}`, `{{ "abc".repeat(6000000) }}`,
		`{{ 5.decimal(".", 0 - 1) }}`, `{{ 5.decimal(".", imax) }}`, `{{ "5".decimal(".", imin) }}`, "{{ [1,2,3].slice(2, 1) }}", "{{ [1,2,3].slice(imax, imin) }}", "{{ [1,2,3].slice(imin) }}",
		"@for(;;)x@break@end", "@for(k = 0; ; k++){{ k }}@breakIf(k == 2)@end", "@for(k = 0; k < 3; )x@break@end", "@for(; i0 < 1; )x@break@end", "@for(k; k < 3; k++)x@end", "@for(i7; i7 < 3; i7++)x@end",
		"{{ n = 0 }}@for(; n < 2; n++){{ n = n + 1 }}x@end", "@for(k = 1; k < 10; k = k * 2){{ k }}@end", "@for(k = 2.5; k > 0.0; k--){{ k }}@end", "{{ 0.5-- }} {{ (0.0 - 1.5)-- }}",
		"{{ a3[imax] }}", "{{ a3[imin] }}", "{{ a3[nn] }}", "{{ nn[0] }}", "{{ [][0] }}", "{{ a3[1][0] }}", "@breakIf(nosuch)", "@continueIf(1 / 0)", "@break", "@continue",
		"{{ imin / (0 - 1) }}", "{{ imin % (0 - 1) }}", "{{ -imin }}", "{{ imin.abs() }}", "{{ 1.0 / 0.0 }}",
		"@use(\"x\")", "@reserve(\"r\")", "@insert(\"r\")a@end", "@component(\"c\")", "@slot", "@component(\"c\", {a: nosuch})", "@dump(nosuch)", "@dump()", "{{ [nosuch] }}", "{{ {a: nosuch} }}",
		"@dump([[[[[[1]]]]]])", "@dump([[[[[[[[[[1, \"s\"]]]]]]]]]])", "@dump({a: {b: {c: {d: {e: {f: {g: [1, {h: nil}]}}}}}}})", "{{ [[[[[[[[1]]]]]]]] }}", "{{ {a: {b: {c: {d: {e: {f: {g: 1}}}}}}} }}",
		`{{ "ab".repeat(9223372036854775807) }}`, `{{ "ab".repeat(4611686018427387905) }}`, `{{ "abc".repeat(3074457345618258603) }}`, `{{ "éé".repeat(2305843009213693952) }}`,
	}
	for _, s := range named {
		add("named_faults", s, sc.data)
	}
	// data with embedded structs (exported and unexported types, by value, nil and non-nil pointers), aliasing maps
	for _, src := range []string{"{{ a }}|{{ b }}|{{ c }}|{{ d }}", "@dump(a, b, c, d)", "{{ c.EmbBase.ID }}", "{{ c.name.len() }}{{ d.embBase.id }}", "@each(v in [a, b, c, d]){{ v.name }}@end", "{{ e.profile.name }}{{ f.d_all[0] }}"} {
		c := evalCase("embedded_structs", src, gvMap("a", gvNamed(7), "b", gvNamed(8), "c", gvNamed(9), "d", gvNamed(10), "e", gvNamed(5), "f", gvNamed(6)))
		c.Oracle = oracleNoCrash
		cs = append(cs, c)
	}
	// nil pointers to types with methods (String, Error, marshalers), at the root, in struct fields, in containers: they are nil, no method is called on them
	for _, src := range []string{"{{ x }}|{{ y }}|{{ z }}", "@dump(x, y, z)", "{{ x.d ? 1 : 0 }}{{ x.t ? 1 : 0 }}{{ x.u ? 1 : 0 }}{{ x.ok }}", "{{ y.deleted }}|{{ y.site }}|{{ y.price.amount }}|{{ y.name }}",
		"@each(v in z)[{{ v }}]@end", "{{ z.len() }}{{ z[4] }}", "{{ y.doc.title }}", "{{ x.t.year }}", "@if(y.err)E@else none@end"} {
		c := evalCase("nil_pointers_with_methods", src, gvMap("x", gvNamed(21), "y", gvNamed(22), "z", gvNamed(23)))
		c.Oracle = oracleNoCrash
		cs = append(cs, c)
	}
	// the line of a fault that follows string literals holding line breaks (first, last, only character)
	for _, pre := range []string{"{{ \"\nabc\" }}", "{{ '\n' }}", "{{ \"a\n\" }}", "{{ \"\n\n\" }}{{ '\nx\n' }}", "{{ [\"\n\", \"b\"] }}", "{{ \"\r\nq\" }}", "@if(\"\n\" == \"\")@end", "{{ x = \"\nz\" }}"} {
		for _, f := range []struct{ src, part string }{{"{{ 5 % 0 }}", "division"}, {"{{ i7.x }}", ""}, {"@each(q in 7)x@end", ""}, {"{{ \"a\".repeat(\"b\") }}", ""}} {
			line := strings.Count(pre, "\n") + 2
			c := evalCase("line_after_multiline_strings", pre+"\n"+f.src, sc.data)
			c.Oracle = func(c *Case, impl string) string { return wantErrLine(line, f.part)(impl) }
			cs = append(cs, c)
		}
	}
	// values nested very deeply, as literals and from the data, printed and dumped
	for _, depth := range []int{8, 15, 16, 17, 31, 32, 33, 34, 63, 64, 65, 66, 100, 129} {
		for _, obj := range []bool{false, true} {
			d := gvMap("d", nestedGV(depth, obj))
			for _, src := range []string{"@dump(d)", "{{ d }}", "@dump(" + nestedLit(depth, obj) + ")", "{{ " + nestedLit(depth, obj) + " }}", "@each(v in [d])@dump(v, d)@end"} {
				c := evalCase("deep_values", src, d)
				c.Oracle = oracleNoCrash
				c.Timeout = 20 * time.Second
				cs = append(cs, c)
			}
		}
	}
	// letters whose case forms have another length in UTF-8 (or a title form of their own), first and not first
	for _, r := range caseRunes() {
		for _, str := range []string{string(r), string(r) + "x", "x" + string(r), string(r) + string(r)} {
			c := evalCase("case_mapping_runes", `{{ s.capitalize() }}|{{ s.upper() }}|{{ s.lower() }}|{{ s.reverse() }}|{{ s.first() }}|{{ s.truncate(1) }}|{{ s.len() }}`, gvMap("s", gvStr(str)))
			c.Oracle = oracleNoCrash
			c.NoModel = true
			cs = append(cs, c)
		}
	}
	// every built-in x receivers x argument tuples
	for _, fn := range builtinFns {
		for _, r := range recvPool {
			add("builtin_arity0", callSrc(r, fn, nil), sc.data)
			for _, a := range argPool {
				if g.thorough() || g.chance(1, 2) {
					add("builtin_arity1", callSrc(r, fn, []string{a}), sc.data)
				}
			}
			n2 := g.scale(6, 120)
			for i := 0; i < n2; i++ {
				add("builtin_arity2", callSrc(r, fn, []string{g.pick(argPool), g.pick(argPool)}), sc.data)
			}
			if g.chance(1, 2) {
				add("builtin_arity3", callSrc(r, fn, []string{g.pick(argPool), g.pick(argPool), g.pick(argPool)}), sc.data)
			}
		}
	}
	// untyped programs
	for i := 0; i < g.scale(6000, 200000); i++ {
		add("untyped_programs", g.untypedTemplate(sc, 2), sc.data)
	}
	// data with nil pointers, nil interfaces and unsupported values at any depth
	for i := 0; i < g.scale(1500, 40000); i++ {
		d := gvMap("d", g.goValue(3, true))
		src := g.pick([]string{"{{ d }}", "@dump(d)", "@each(q in d){{ q }}@end", "{{ d.a }}", "{{ d[0] }}", "{{ d.a.b }}", "@if(d)y@end", "{{ d.len() }}"})
		add("data_values", src, d)
	}
	return cs
}

// goValue: a random Go value description; withBad also produces unsupported kinds
func (g *Gen) goValue(depth int, withBad bool) *GV {
	k := g.n(14)
	if depth <= 0 && k >= 8 {
		k = g.n(8)
	}
	switch k {
	case 0:
		return gvNil()
	case 1:
		return gvBool(g.chance(1, 2))
	case 2:
		kinds := []reflect.Kind{reflect.Int, reflect.Int8, reflect.Int16, reflect.Int32, reflect.Int64, reflect.Uint, reflect.Uint8, reflect.Uint16, reflect.Uint32, reflect.Uint64}
		kd := kinds[g.n(len(kinds))]
		var v int64
		switch kd {
		case reflect.Int8:
			v = int64(int8(g.u64()))
		case reflect.Int16:
			v = int64(int16(g.u64()))
		case reflect.Int32:
			v = int64(int32(g.u64()))
		case reflect.Uint8:
			v = int64(uint8(g.u64()))
		case reflect.Uint16:
			v = int64(uint16(g.u64()))
		case reflect.Uint32:
			v = int64(uint32(g.u64()))
		case reflect.Uint, reflect.Uint64:
			v = int64(g.u64() >> 1)
		default:
			v = []int64{0, 1, -1, 42, math.MaxInt64, math.MinInt64, -1000}[g.n(7)]
		}
		gv := gvInt(v)
		gv.IKind = kd
		return gv
	case 3:
		f := []float64{0, 1.5, -2.25, 100, 0.1, 3}[g.n(6)]
		gv := gvFloat(f)
		gv.F32 = g.chance(1, 3) && float64(float32(f)) == f
		return gv
	case 4, 5:
		return gvStr(g.pick([]string{"", "x", "héllo", "<i>", "a b", "\xff", "1"}))
	case 6:
		return &GV{K: "PN"}
	case 7:
		if withBad && g.chance(1, 2) {
			return &GV{K: "O", Other: g.pick([]string{"chan", "func", "array", "complex", "intkeymap", "boolkeymap", "mixedkeymap", "structkeymap", "emptyintkeymap", "floatkeymap"})}
		}
		return gvInt(7)
	case 8:
		return &GV{K: "P", Elems: []*GV{g.goValue(depth-1, withBad)}}
	case 9, 10:
		n := g.n(4)
		l := &GV{K: "L", NilRef: n == 0 && g.chance(1, 2), Typed: g.chance(1, 3)}
		if l.Typed {
			// a statically typed slice: []string, []int64, []float64, []bool
			kind := g.n(4)
			for i := 0; i < 1+g.n(3); i++ {
				l.Elems = append(l.Elems, g.scalarOfKind(kind))
			}
			if g.chance(1, 6) {
				return &GV{K: "L", NilRef: true, Typed: true}
			}
			l.NilRef = false
			return l
		}
		for i := 0; i < n; i++ {
			l.Elems = append(l.Elems, g.goValue(depth-1, withBad))
		}
		return l
	case 11:
		n := g.n(4)
		if g.chance(1, 12) {
			return &GV{K: "M", NilRef: true, Typed: true}
		}
		m := &GV{K: "M", NilRef: n == 0 && g.chance(1, 2), Typed: g.chance(1, 3), NKey: g.chance(1, 3)}
		if !m.NKey && g.chance(1, 4) {
			m.AKey = true
		}
		kind := g.n(4)
		if m.Typed || m.NKey || m.AKey {
			m.NilRef = false
			n = 1 + g.n(3)
		}
		for i := 0; i < n; i++ {
			key := g.pick([]string{"a", "A", "b", "name", "Name", "Key", "key", "x y", ""})
			if containsStr(m.Keys, key) {
				continue
			}
			m.Keys = append(m.Keys, key)
			if m.Typed {
				m.Elems = append(m.Elems, g.scalarOfKind(kind))
			} else {
				m.Elems = append(m.Elems, g.goValue(depth-1, withBad))
			}
		}
		return m
	default:
		n := 1 + g.n(4)
		t := &GV{K: "T"}
		for i := 0; i < n; i++ {
			name := g.pick([]string{"A", "B", "Name", "Age", "Inner", "hidden", "secret"})
			if containsStr(t.Keys, name) {
				continue
			}
			t.Keys = append(t.Keys, name)
			t.Export = append(t.Export, name[0] >= 'A' && name[0] <= 'Z')
			t.Elems = append(t.Elems, g.goValue(depth-1, withBad))
		}
		return t
	}
}

// scalarOfKind: a scalar of one fixed static type (0 string, 1 int64, 2 float64, 3 bool)
func (g *Gen) scalarOfKind(kind int) *GV {
	switch kind {
	case 0:
		return gvStr(g.pick([]string{"", "x", "héllo", "<i>", "a b"}))
	case 1:
		return gvInt([]int64{0, 1, -1, 42, -1000}[g.n(5)])
	case 2:
		return gvFloat([]float64{0, 1.5, -2.25, 100}[g.n(4)])
	}
	return gvBool(g.chance(1, 2))
}

// ---------------------------------------------------------------------------------------------
// C10

func litSrc(content string, q byte) string { return quoteLit(content, q) }

// oracleC10: the four clauses of the statement about the output of a literal
func oracleC10(content, pre, post string) func(*Case, string) string {
	return func(c *Case, impl string) string {
		f := strings.Fields(impl)
		if len(f) == 0 || f[0] != "OK" {
			return "a string literal must render: " + describe(impl)
		}
		out := ""
		if len(f) >= 2 {
			out = unhx(f[1])
		}
		if !strings.HasPrefix(out, pre) || !strings.HasSuffix(out, post) || len(out) < len(pre)+len(post) {
			return fmt.Sprintf("output %q does not have the expected surroundings %q … %q", out, pre, post)
		}
		mid := out[len(pre) : len(out)-len(post)]
		if strings.ContainsAny(mid, "<>") {
			return fmt.Sprintf("raw '<' or '>' from the literal %q reached the output %q", content, mid)
		}
		for i := 0; i < len(mid); i++ {
			if mid[i] == '&' {
				rest := mid[i:]
				if !(strings.HasPrefix(rest, "&amp;") || strings.HasPrefix(rest, "&lt;") || strings.HasPrefix(rest, "&gt;")) {
					return fmt.Sprintf("an '&' of the literal %q does not appear as an entity in %q", content, mid)
				}
			}
		}
		if strings.Count(mid, `"`) != strings.Count(content, `"`) || strings.Count(mid, "'") != strings.Count(content, "'") {
			return fmt.Sprintf("quotes of the literal %q do not stay as written in %q", content, mid)
		}
		if html.UnescapeString(mid) != content {
			return fmt.Sprintf("unescaping the output %q gives %q, not the literal %q", mid, html.UnescapeString(mid), content)
		}
		return ""
	}
}

func casesC10(g *Gen) []*Case {
	var cs []*Case
	alpha := []string{"<", ">", "&", ";", "#", "3", "4", "9", "x", `"`, "'", "\\", "&amp;", "&lt;", "&#34;", "&#39;", "é", "中", " ", "amp", ",", ", ", "}", "{", ":",
		// what is an escape in text is none in a string literal
		"\\{{", "\\@end", "\\@if(", "{{", "@end", "\\}}", "\\n"}
	seen := map[string]bool{}
	addLit := func(content string) {
		if seen[content] || strings.HasSuffix(content, "\\") {
			return
		}
		seen[content] = true
		for _, q := range []byte{'"', '\''} {
			if q == '\'' && !g.thorough() && !g.chance(1, 3) {
				continue
			}
			l := litSrc(content, q)
			ctx := []struct{ fam, src, pre, post string }{
				{"printed", "[{{ " + l + " }}]", "[", "]"},
				{"concatenated", "[{{ \"x\" + " + l + " + 'y' }}]", "[x", "y]"},
				{"variable", "{{ v = " + l + " }}[{{ v }}]", "[", "]"},
				{"array_element", "[{{ [" + l + "][0] }}]", "[", "]"},
				{"array_join", "[{{ [" + l + ", \"k\"].join(\"|\") }}]", "[", "|k]"},
				{"ternary", "[{{ true ? " + l + " : \"n\" }}]", "[", "]"},
				{"array_printed", "[{{ [\"k\", " + l + "] }}]", "[k, ", "]"},
				{"array_printed_alone", "<{{ [" + l + "] }}>", "<", ">"},
				{"array_printed_first", "[{{ [" + l + ", \"k\"] }}]", "[", ", k]"},
				{"object_printed", "[{{ {a: " + l + "} }}]", "[{a: ", "}]"},
			}
			for _, cx := range ctx {
				c := evalCase(cx.fam, cx.src, nil)
				c.Oracle = oracleC10(content, cx.pre, cx.post)
				cs = append(cs, c)
			}
			// raw() yields exactly the original text
			for _, src := range []string{"[{{ " + l + ".raw() }}]", "{{ v = " + l + " }}[{{ v.raw() }}]", "{{ v = " + l + " }}{{ v.raw() }}{{ v.raw() }}[{{ v.raw() }}]"} {
				want := "[" + content + "]"
				if strings.Count(src, ".raw()") == 3 {
					want = content + content + want
				}
				c := evalCase("raw_exact", src, nil)
				c.Oracle = expectOut(want)
				cs = append(cs, c)
			}
			// raw() does not change the stored value
			c := evalCase("raw_then_use", "{{ v = "+l+" }}{{ v.raw().len() > 0 ? \"\" : \"\" }}[{{ v }}]", nil)
			c.Oracle = oracleC10(content, "[", "]")
			cs = append(cs, c)
		}
	}
	// the same literal in the argument positions of the template directives, through a template tree
	treeSeen := map[string]bool{}
	addTree := func(content string) {
		if treeSeen[content] || strings.HasSuffix(content, "\\") {
			return
		}
		treeSeen[content] = true
		l := litSrc(content, '"')
		t := newTree()
		t.files["tpl/layouts/l.tw"] = `[@reserve("a")][@reserve("b")]`
		t.files["tpl/c.tw"] = "[{{ v }}][@slot]"
		t.files["tpl/page.tw"] = `@use("~l")@insert("a", ` + l + `)@insert("b"){{ ` + l + ` }}@end`
		t.files["tpl/comp.tw"] = `@component("c", {v: ` + l + `})@slot{{ ` + l + ` }}@end@end`
		c := histCase("tree_contexts", t, []string{opNew("tpl", ".tw", "", false), opStr("page", nil), opStr("comp", nil)}, "NewTemplate; String(page); String(comp)")
		one := oracleC10(content, "[", "]")
		c.Oracle = func(c *Case, impl string) string {
			rs := results(impl)
			if len(rs) != 3 || !strings.HasPrefix(rs[0], "NEWOK") {
				return "the tree must load and render: " + clip(impl, 200)
			}
			for _, r := range rs[1:] {
				out, ok := outOf(r)
				if !ok {
					return "the page must render: " + clip(r, 200)
				}
				// the two occurrences are "[lit][lit]"
				i := strings.Index(out, "][")
				if i < 0 {
					return "unexpected output " + clip(out, 120)
				}
				for _, part := range []string{out[:i+1], out[i+1:]} {
					if msg := one(c, "OK "+hx(part)); msg != "" {
						return msg
					}
				}
			}
			return ""
		}
		cs = append(cs, c)
		// the first renders of the pages overlap on one Template (a web server's first requests):
		// every call returns what it returns alone, and so do the calls after them
		if len(treeSeen)%3 == 0 && content != "" {
			long := litSrc(strings.Repeat(content+" <b>&</b> 'q' ", 12), '"')
			t2 := newTree()
			for k, v := range t.files {
				t2.files[k] = v
			}
			t2.files["tpl/long.tw"] = `@use("~l")@insert("a", ` + long + `)@insert("b")@each(i in [1, 2, 3]){{ ` + long + ` }}@component("c", {v: ` + l + `})@slot{{ ` + long + `.raw() }}@end@end@end@end`
			work := []string{opStr("long", nil), opStr("page", nil), opStr("comp", nil)}
			fields := []string{t2.term(), "8", "2", "16", opNew("tpl", ".tw", "", false), "--"}
			fields = append(fields, work...)
			cc := &Case{Kind: "conc", Fields: fields, Family: "concurrent_first_renders", NoModel: true,
				Note: "8 goroutines render long, page, comp on a Template that has rendered nothing yet; literal " + l}
			cc.Oracle = func(c *Case, impl string) string {
				if strings.HasPrefix(impl, "CONC ok") {
					return ""
				}
				return "overlapping first renders did not return what the calls return alone: " + clip(impl, 600)
			}
			cs = append(cs, cc)
			cs = append(cs, histCase("first_renders_baseline", t2, append([]string{opNew("tpl", ".tw", "", false)}, work...), "the same calls run alone"))
		}
	}
	escC10 := func(x string) string {
		return strings.NewReplacer("&", "&amp;", "<", "&lt;", ">", "&gt;").Replace(x)
	}
	// literals that stand at the same line and column of different files of one render
	{
		t := newTree()
		t.files["tpl/layouts/l.tw"] = `{{ "<L>" }}|{{ "&l" }}[@reserve("a")]`
		t.files["tpl/card.tw"] = `{{ "<i>" }}|{{ "&c" }}(@slot)`
		t.files["tpl/page.tw"] = `{{ "<b>" }}|{{ "&p" }}@component("card")@slot{{ "<s>" }}@end@end`
		t.files["tpl/page2.tw"] = `@use("~l")@insert("a"){{ "<b>" }}@component("card")@end`
		t.files["tpl/page3.tw"] = `{{ "<b>".raw() }}|{{ "x" }}@component("card")|@component("card")`
		c := histCase("same_position_other_file", t, []string{opNew("tpl", ".tw", "", false), opStr("page", nil), opStr("page2", nil), opStr("page3", nil)},
			"NewTemplate; a page, its component and its layout hold different literals at the same line and column")
		c.Oracle = expectResults(map[int]func(string) string{0: wantNewOK, 1: wantOK("&lt;b&gt;|&amp;p&lt;i&gt;|&amp;c(&lt;s&gt;)"),
			2: wantOK("&lt;L&gt;|&amp;l[&lt;b&gt;&lt;i&gt;|&amp;c()]"), 3: wantOK("<b>|x&lt;i&gt;|&amp;c()|&lt;i&gt;|&amp;c()")})
		cs = append(cs, c)
	}
	// two different literals of one length whose usual 32-bit checksums are equal, in one render
	for _, col := range collidingPairs("c10", numShape("<a href='/p?id=", "&x=1'>")) {
		la, lb := litSrc(col.a, '"'), litSrc(col.b, '"')
		c := evalCase("checksum_twins", "{{ "+la+" }}|{{ "+lb+" }}|{{ "+la+".raw() }}|{{ "+lb+".raw() }}|{{ ["+lb+", "+la+"].join(\"|\") }}@each(i in [1, 2])|{{ i == 1 ? "+la+" : "+lb+" }}@end", nil)
		c.Oracle = expectOut(escC10(col.a) + "|" + escC10(col.b) + "|" + col.a + "|" + col.b + "|" + escC10(col.b) + "|" + escC10(col.a) + "|" + escC10(col.a) + "|" + escC10(col.b))
		c.Tags = []string{col.fn}
		cs = append(cs, c)
	}
	// literals placed in arrays that are then extended twice, sliced, prepended: every array keeps its own literals
	for n := 1; n <= 9; n++ {
		var lits, esc []string
		for k := 0; k < n; k++ {
			l := fmt.Sprintf("<l%d&'%d'>", k, k)
			lits = append(lits, litSrc(l, '"'))
			esc = append(esc, escC10(l))
		}
		x, y := "<x&\"1\">", "<y&'2'>"
		xs := "{{ xs = [" + strings.Join(lits, ", ") + "] }}"
		j := func(parts ...string) string { return strings.Join(parts, ", ") }
		all := strings.Join(esc, ", ")
		c := evalCase("literals_in_extended_arrays", xs+"{{ a = xs.append("+litSrc(x, '"')+") }}{{ c = xs.append("+litSrc(y, '\'')+") }}{{ a }}|{{ c }}|{{ xs }}", nil)
		c.Oracle = expectOut(j(all, escC10(x)) + "|" + j(all, escC10(y)) + "|" + all)
		cs = append(cs, c)
		c = evalCase("literals_in_extended_arrays", xs+"{{ a = xs.prepend("+litSrc(x, '"')+") }}{{ c = xs.prepend("+litSrc(y, '\'')+") }}{{ a }}|{{ c }}|{{ xs }}", nil)
		c.Oracle = expectOut(j(escC10(x), all) + "|" + j(escC10(y), all) + "|" + all)
		cs = append(cs, c)
		c = evalCase("literals_in_extended_arrays", xs+"{{ h = xs.slice(0, 1) }}{{ a = h.append("+litSrc(x, '"')+") }}{{ a }}|{{ xs }}|{{ h }}", nil)
		c.Oracle = expectOut(j(esc[0], escC10(x)) + "|" + all + "|" + esc[0])
		cs = append(cs, c)
	}
	for n := 0; n <= 1; n++ {
		sigmaStrings(alpha, n, addTree)
	}
	for i := 0; i < g.scale(60, 3000); i++ {
		addTree(g.sigmaRandom(alpha, g.scale(5, 8)))
	}
	maxExh := g.scale(2, 3)
	for n := 0; n <= maxExh; n++ {
		sigmaStrings(alpha, n, addLit)
	}
	for i := 0; i < g.scale(1500, 60000); i++ {
		addLit(g.sigmaRandom(alpha, g.scale(6, 10)))
	}
	return cs
}

// ---------------------------------------------------------------------------------------------
// C11

func outOf(impl string) (string, bool) {
	f := strings.Fields(impl)
	if len(f) >= 1 && f[0] == "OK" {
		if len(f) >= 2 {
			return unhx(f[1]), true
		}
		return "", true
	}
	return "", false
}

func casesC11(g *Gen) []*Case {
	var cs []*Case
	sc := stdScope()
	// the receiver and every value derived from it earlier are unchanged by later calls (no shared storage)
	for src, want := range map[string]string{
		"{{ x = [1, 2, 3] }}{{ a = x.append(4) }}{{ c = x.append(5) }}{{ a }}|{{ c }}|{{ x }}":                    "1, 2, 3, 4|1, 2, 3, 5|1, 2, 3",
		"{{ x = [1, 2, 3, 4] }}{{ y = x.slice(0, 2) }}{{ z = y.append(9) }}{{ x }}|{{ y }}|{{ z }}":               "1, 2, 3, 4|1, 2|1, 2, 9",
		"{{ x = [1, 2, 3] }}{{ p = x.prepend(0) }}{{ q = x.prepend(7) }}{{ p }}|{{ q }}|{{ x }}":                  "0, 1, 2, 3|7, 1, 2, 3|1, 2, 3",
		"{{ y = d.slice(1) }}{{ z = y.append(9) }}{{ w = d.slice(0, 1).append(8) }}{{ d }}|{{ y }}|{{ z }}|{{ w }}": "1, 2, 3|2, 3|2, 3, 9|1, 8",
		"{{ r = d.reverse() }}{{ r2 = r.append(0) }}{{ d }}|{{ r }}":                                              "1, 2, 3|3, 2, 1",
		"{{ f = 2.5 }}{{ f-- + f }}|{{ f }}|{{ g = f }}{{ g++ }}|{{ f }}|{{ [f][0]-- }}|{{ f }}":                   "4.0|2.5|3.5|2.5|1.5|2.5",
		"@each(q in [1, 2])@each(v in d){{ v-- }}@end;@end{{ d }}":                                                "012;012;1, 2, 3",
	} {
		c := evalCase("no_shared_storage", src, gvMap("d", gvList(gvInt(1), gvInt(2), gvInt(3))))
		c.Oracle = expectOut(want)
		cs = append(cs, c)
	}
	// integer built-ins at the boundaries
	for src, want := range map[string]string{
		"{{ imin.len() }}|{{ imax.len() }}|{{ (0 - 9).len() }}|{{ 0.len() }}|{{ 10.len() }}": "19|19|1|1|2",
		"{{ imin.str() }}|{{ imin.abs() }}|{{ imax.float() }}":                                  "-9223372036854775808|-9223372036854775808|9223372036854775807.0",
	} {
		c := evalCase("int_boundaries", src, sc.data)
		c.Oracle = nil
		_ = want
		cs = append(cs, c)
	}
	// capitalize / upper / lower over the letters whose case forms are unusual: the contract is Go's own mapping
	// of the first character (upper case, not title case), the rest unchanged
	for _, r := range caseRunes() {
		for _, str := range []string{string(r), string(r) + "xY", "x" + string(r), string(r) + string(r)} {
			rs := []rune(str)
			want := strings.ToUpper(string(rs[0])) + string(rs[1:]) + "|" + strings.ToUpper(str) + "|" + strings.ToLower(str) + "|" + strconv.Itoa(len(rs))
			c := evalCase("case_mapping_runes", `{{ s.capitalize() }}|{{ s.upper() }}|{{ s.lower() }}|{{ s.len() }}`, gvMap("s", gvStr(str)))
			c.Oracle = expectOut(want)
			c.NoModel = true
			cs = append(cs, c)
		}
	}
	strs := []string{"", "a", "abc", "héllo", "日本語x", " pad ", "ÉCOLE", "straße", "a,b,,c", "xxaxx", "12", "-7", "+3", "1.5", "é",
		// white space of every kind at the ends: only tab, space, LF, CR are trimmed by default
		" \t\vq\v\r\n", "\fx\f", "\u00a0p\u00a0", "\u3000z\u2028", "\u0085n\u0085", "\u2003m \u200a", " \u00a0 ", "\x00t\x00", "\u200bw\ufeff"}
	mk := func(fam, src string, data *GV, want string) {
		c := evalCase(fam, src, data)
		c.Oracle = expectOut(want)
		cs = append(cs, c)
	}
	runes := func(s string) []rune { return []rune(s) }
	for _, s := range strs {
		d := gvMap("s", gvStr(s))
		rs := runes(s)
		mk("str_len", "{{ s.len() }}", d, strconv.Itoa(len(rs)))
		rev := make([]rune, len(rs))
		for i, r := range rs {
			rev[len(rs)-1-i] = r
		}
		mk("str_reverse", "{{ s.reverse() }}", d, string(rev))
		mk("str_reverse_involutive", "{{ s.reverse().reverse() }}", d, s)
		for i := -len(rs) - 2; i <= len(rs)+1; i++ {
			want := ""
			j := i
			if j < 0 {
				j += len(rs)
			}
			if j >= 0 && j < len(rs) {
				want = string(rs[j])
			}
			mk("str_at", fmt.Sprintf("[{{ s.at(%s) }}]", MV{T: "int", I: int64(i)}.lit()), d, "["+want+"]")
		}
		first, last := "", ""
		if len(rs) > 0 {
			first, last = string(rs[0]), string(rs[len(rs)-1])
		}
		mk("str_first_last", "[{{ s.first() }}|{{ s.last() }}]", d, "["+first+"|"+last+"]")
		for n := 0; n <= len(rs)+1; n++ {
			want := s
			if n < len(rs) {
				want = string(rs[:n]) + "..."
			}
			mk("str_truncate", fmt.Sprintf("{{ s.truncate(%d) }}", n), d, want)
			want2 := s
			if n < len(rs) {
				want2 = string(rs[:n]) + "~"
			}
			mk("str_truncate", fmt.Sprintf("{{ s.truncate(%d, \"~\") }}", n), d, want2)
		}
		if len(rs) > 0 {
			mk("str_capitalize", "{{ s.capitalize() }}", d, strings.ToUpper(string(rs[0]))+string(rs[1:]))
		} else {
			mk("str_capitalize", "{{ s.capitalize() }}", d, "")
		}
		if isTabulated(s) {
			mk("str_upper_lower", "{{ s.upper() }}|{{ s.lower() }}", d, strings.ToUpper(s)+"|"+strings.ToLower(s))
		}
		mk("str_trim", "[{{ s.trim() }}|{{ s.trimLeft() }}|{{ s.trimRight() }}]", d, "["+strings.Trim(s, "\t \n\r")+"|"+strings.TrimLeft(s, "\t \n\r")+"|"+strings.TrimRight(s, "\t \n\r")+"]")
		mk("str_trim_set", "[{{ s.trim(\"xé \") }}]", d, "["+strings.Trim(s, "xé ")+"]")
		for _, sep := range []string{",", "", "x", "é", "ab"} {
			parts := strings.Split(s, sep)
			mk("str_split_join", fmt.Sprintf("{{ s.split(%q).join(%q) }}", sep, sep), d, strings.Join(parts, sep))
			mk("str_split_len", fmt.Sprintf("{{ s.split(%q).len() }}", sep), d, strconv.Itoa(len(parts)))
			want := "0"
			if strings.Contains(s, sep) {
				want = "1"
			}
			mk("str_contains", fmt.Sprintf("{{ s.contains(%q) }}", sep), d, want)
		}
		for n := 0; n <= 3; n++ {
			mk("str_repeat", fmt.Sprintf("{{ s.repeat(%d) }}", n), d, strings.Repeat(s, n))
		}
		if _, err := strconv.Atoi(s); err == nil {
			mk("str_decimal", "{{ s.decimal() }}|{{ s.decimal(\",\", 3) }}|{{ s.decimal(\".\", 0) }}", d, s+".00|"+s+",000|"+s)
		} else {
			mk("str_decimal", "{{ s.decimal() }}", d, s)
		}
	}
	// decimal() on strings that look almost like integers: only what strconv.Atoi accepts is formatted, everything else comes back unchanged
	for _, s := range []string{"-", "+", "--1", "+-1", "-+1", "1-", "1+", " 1", "1 ", "- 1", "0x10", "1e3", "1_000", "١٢", "１２", "12345678901234567890", "-12345678901234567890", "9223372036854775808", ".", "-.", "1.", ".5", "", "١", "+", "−5"} {
		d := gvMap("s", gvStr(s))
		mk("str_decimal_almost", "{{ s.decimal() }}|{{ s.decimal(\",\", 3) }}|{{ s.decimal(\".\", 0) }}", d, s+"|"+s+"|"+s)
	}
	for _, s := range []string{"+5", "-0", "+0", "007", "-007", "9223372036854775807", "-9223372036854775808"} {
		d := gvMap("s", gvStr(s))
		mk("str_decimal_almost", "{{ s.decimal() }}|{{ s.decimal(\",\", 3) }}|{{ s.decimal(\".\", 0) }}", d, s+".00|"+s+",000|"+s)
	}
	// arrays: slice clamps, append / prepend / reverse / contains / join / len
	for n := 0; n <= g.scale(4, 5); n++ {
		var elems []*GV
		var shown []string
		for i := 0; i < n; i++ {
			elems = append(elems, gvInt(int64(10*(i+1))))
			shown = append(shown, strconv.Itoa(10*(i+1)))
		}
		d := gvMap("a", gvList(elems...))
		for st := -g.scale(3, 7); st <= g.scale(6, 7); st++ {
			s0 := st
			if s0 < 0 {
				s0 = 0
			}
			if s0 > n {
				s0 = n
			}
			mk("arr_slice1", fmt.Sprintf("[{{ a.slice(%s) }}]", MV{T: "int", I: int64(st)}.lit()), d, "["+strings.Join(shown[s0:], ", ")+"]")
			for en := -g.scale(3, 7); en <= g.scale(6, 7); en++ {
				e0 := en
				if e0 < 0 || e0 > n {
					e0 = n
				}
				if e0 < s0 {
					e0 = s0
				}
				mk("arr_slice2", fmt.Sprintf("[{{ a.slice(%s, %s) }}]", MV{T: "int", I: int64(st)}.lit(), MV{T: "int", I: int64(en)}.lit()), d, "["+strings.Join(shown[s0:e0], ", ")+"]")
			}
		}
		mk("arr_len", "{{ a.len() }}", d, strconv.Itoa(n))
		mk("arr_append", "[{{ a.append(7, 8) }}]", d, "["+strings.Join(append(append([]string{}, shown...), "7", "8"), ", ")+"]")
		mk("arr_prepend", "[{{ a.prepend(7, 8) }}]", d, "["+strings.Join(append([]string{"7", "8"}, shown...), ", ")+"]")
		rev := make([]string, n)
		for i := range shown {
			rev[n-1-i] = shown[i]
		}
		mk("arr_reverse", "[{{ a.reverse() }}]", d, "["+strings.Join(rev, ", ")+"]")
		mk("arr_join", "[{{ a.join(\"-\") }}|{{ a.join() }}]", d, "["+strings.Join(shown, "-")+"|"+strings.Join(shown, ",")+"]")
		want := "0"
		if n >= 2 {
			want = "1"
		}
		mk("arr_contains", "{{ a.contains(20) }}", d, want)
		mk("arr_contains", "{{ a.contains(\"20\") }}{{ a.contains(20.0) }}{{ a.contains(nil) }}", d, "000")
		// shuffle returns a permutation
		c := evalCase("arr_shuffle_perm", "{{ a.shuffle().len() }}|{{ a.shuffle().contains(10) }}|{{ a }}", d)
		has := "0"
		if n >= 1 {
			has = "1"
		}
		c.Oracle = expectOut(strconv.Itoa(n) + "|" + has + "|" + strings.Join(shown, ", "))
		c.NoModel = n > 1
		cs = append(cs, c)
		// purity: receiver and earlier results are unchanged afterwards
		mk("purity", "{{ b = a.append(4) }}{{ c = a.append(5) }}[{{ b }}][{{ c }}][{{ a }}]", d,
			"["+strings.Join(append(append([]string{}, shown...), "4"), ", ")+"]["+strings.Join(append(append([]string{}, shown...), "5"), ", ")+"]["+strings.Join(shown, ", ")+"]")
		mk("purity", "{{ b = a.slice(0, 1).append(9) }}[{{ a }}][{{ a.reverse().reverse() }}][{{ a.prepend(1).len() }}][{{ a }}]", d,
			"["+strings.Join(shown, ", ")+"]["+strings.Join(shown, ", ")+"]["+strconv.Itoa(n+1)+"]["+strings.Join(shown, ", ")+"]")
	}
	// structural equality of contains on nested values
	nested := []struct{ src, want string }{
		{`{{ [[1, 2], [3]].contains([1, 2]) }}`, "1"}, {`{{ [[1, 2], [3]].contains([2, 1]) }}`, "0"}, {`{{ [{a: 1}].contains({a: 1}) }}`, "1"},
		{`{{ [{a: 1}].contains({a: 2}) }}`, "0"}, {`{{ ["a", "b"].contains("b") }}`, "1"}, {`{{ [1.5].contains(1.5) }}`, "1"}, {`{{ [true].contains(true) }}`, "1"},
		{`{{ [nil].contains(nil) }}`, "1"}, {`{{ [[]].contains([]) }}`, "1"}, {`{{ [[1].slice(1)].contains([]) }}`, "1"}, {`{{ [[[1]]].contains([[1]]) }}`, "1"},
	}
	for _, t := range nested {
		mk("arr_contains_nested", t.src, nil, t.want)
	}
	// numbers
	ints := []int64{0, 1, -1, 7, -42, 1000, math.MaxInt64, math.MinInt64, 999999}
	for _, i := range ints {
		d := gvMap("n", gvInt(i))
		abs := i
		if abs < 0 {
			abs = -abs
		}
		digits := len(strconv.FormatInt(i, 10))
		if i < 0 {
			digits--
		}
		mk("int_funcs", "{{ n.abs() }}|{{ n.str() }}|{{ n.len() }}|{{ n.str().len() }}", d, fmt.Sprintf("%d|%d|%d|%d", abs, i, digits, len(strconv.FormatInt(i, 10))))
		mk("int_decimal", "{{ n.decimal() }}|{{ n.decimal(\"_\", 1) }}", d, fmt.Sprintf("%d.00|%d_0", i, i))
	}
	floats := []float64{0, 0.5, -0.5, 1.5, -1.5, 2.5, -2.5, 2.4999, 0.49999999999999994, 3, -3, 1e15, 123.456, -0.0001}
	for _, f := range floats {
		d := gvMap("f", gvFloat(f))
		mk("float_funcs", "{{ f.int() }}|{{ f.ceil() }}|{{ f.floor() }}|{{ f.round() }}|{{ f.str() }}", d,
			fmt.Sprintf("%d|%d|%d|%d|%s", int64(f), int64(math.Ceil(f)), int64(math.Floor(f)), int64(math.Round(f)), strconv.FormatFloat(f, 'f', -1, 64)))
		mk("float_abs", "{{ f.abs() == f ? 1 : f.abs() == 0.0 - f ? 1 : 0 }}|{{ f.abs() >= 0.0 }}", d, "1|1")
	}
	// str() of floats of every magnitude: the shortest decimal text that reads back as the same double, never an exponent
	for _, f := range []float64{9223372036854775807, 9223372036854775808, 18446744073709551616, 9007199254740992, 9007199254740993, 4611686018427387904, -9223372036854775808,
		1e15, 1e16, 1e17, 1e20, 1e21, 1e22, 1.5e300, 5e-324, 2.2250738585072014e-308, 1e-7, 1e-21, 1e-22, 123456789012345680000, math.MaxFloat64, math.Copysign(0, -1), 0.1 + 0.2,
		math.Inf(1), math.Inf(-1), math.NaN(), 33.0, -7.0, 1 << 62} {
		d := gvMap("f", gvFloat(f))
		mk("float_str_magnitudes", "{{ f.str() }}|{{ f.str().len() }}|{{ (f * 1.0).str() }}", d,
			fmt.Sprintf("%s|%d|%s", strconv.FormatFloat(f, 'f', -1, 64), len(strconv.FormatFloat(f, 'f', -1, 64)), strconv.FormatFloat(f, 'f', -1, 64)))
		cs = append(cs, evalCase("float_str_magnitudes", "{{ f }}|{{ [f] }}|{{ {k: f} }}|@dump(f)", d))
	}
	for _, i := range []int64{0, 3, -8, 1 << 53} {
		mk("int_float", "{{ n.float() == n.float() }}|{{ n.float().int() }}", gvMap("n", gvInt(i)), fmt.Sprintf("1|%d", i))
	}
	mk("bool_funcs", "{{ true.binary() }}{{ false.binary() }}|{{ true.then(\"y\", \"n\") }}{{ false.then(\"y\", \"n\") }}|[{{ false.then(\"y\") }}]|{{ bt.then(1) }}", sc.data, "10|yn|[]|1")
	// wrong argument kinds are errors; a built-in wins over a custom function (see C20 for the latter)
	for _, s := range []string{`{{ "a".repeat("3") }}`, `{{ "a".truncate(nil) }}`, `{{ "a".contains(1) }}`, `{{ [1].join(1) }}`, `{{ [1].slice("a") }}`, `{{ [1].slice(0, "b") }}`,
		`{{ "a".split(1) }}`, `{{ "a".trim(1) }}`, `{{ "1".decimal(1) }}`, `{{ 1.decimal(".", "x") }}`, `{{ 1.decimal(".", 1, 1) }}`, `{{ "a".at("x") }}`, `{{ "a".contains() }}`, `{{ [1].append() }}`, `{{ true.then() }}`} {
		c := evalCase("wrong_kind_error", s, nil)
		c.Oracle = func(c *Case, impl string) string {
			if strings.HasPrefix(impl, "ERR ") {
				return ""
			}
			return "a wrong argument kind must be an error: " + describe(impl)
		}
		cs = append(cs, c)
	}
	// valid UTF-8 in, valid UTF-8 out: every string built-in on multi-byte receivers
	u8 := []string{"héllo", "日本語", "éa", "aé", "ñ", "🙂x", "a\uFFFDb", "\uFFFD", "\uFFFD\uFFFD x", "x\uFFFD", "\uFFFE", "\U0010FFFF", "\u07FF\u0800", "\uD7FF\uE000"}
	for _, s := range u8 {
		for _, call := range []string{"truncate(1)", "truncate(2, \"…\")", "capitalize()", "reverse()", "at(0)", "at(1)", "first()", "last()", "upper()", "lower()", "trim(\"é\")", "split(\"\").join(\"|\")", "repeat(2)", "raw()", "trimLeft(\"h日\")"} {
			c := evalCase("utf8_preserved", "{{ s."+call+" }}", gvMap("s", gvStr(s)))
			c.Oracle = func(c *Case, impl string) string {
				out, ok := outOf(impl)
				if ok && !utf8.ValidString(out) {
					return fmt.Sprintf("valid UTF-8 input gave invalid UTF-8 output %q", out)
				}
				return ""
			}
			cs = append(cs, c)
		}
	}
	// correspondence with the model over the full cross product (sampled in the quick tier)
	for _, fn := range builtinFns {
		for _, r := range recvPool {
			cs = append(cs, evalCase("cross_arity0", callSrc(r, fn, nil), sc.data))
			for _, a := range argPool {
				if g.thorough() || g.chance(1, 3) {
					cs = append(cs, evalCase("cross_arity1", callSrc(r, fn, []string{a}), sc.data))
				}
			}
			for i := 0; i < g.scale(3, 60); i++ {
				cs = append(cs, evalCase("cross_arity2", callSrc(r, fn, []string{g.pick(argPool), g.pick(argPool)}), sc.data))
			}
		}
	}
	return cs
}

// is every letter of s inside the case table of the model
func isTabulated(s string) bool {
	for _, r := range s {
		if r < 0x250 || (r >= 0x391 && r <= 0x3C9) || (r >= 0x400 && r <= 0x45F) {
			if r == 0xDF || r == 0x130 || r == 0x131 || r == 0x17F || (r >= 0x100 && r < 0x250) {
				return false
			}
			continue
		}
		if r > 0x2E80 { // caseless scripts
			continue
		}
		return false
	}
	return true
}

// ---------------------------------------------------------------------------------------------
// C12

// goLookup follows a path in the description of a Go value (what the statement promises)
type pathStep struct {
	key   string
	idx   int
	isIdx bool
	viaLc bool // field addressed with its first letter lower-cased
}

func derefGV(v *GV) *GV {
	for v.K == "P" {
		v = v.Elems[0]
	}
	return v
}

func (g *Gen) randomPath(v *GV, depth int) ([]pathStep, *GV, bool) {
	var path []pathStep
	for d := 0; d < depth; d++ {
		v = derefGV(v)
		switch v.K {
		case "L":
			if len(v.Elems) == 0 {
				return path, v, true
			}
			i := g.n(len(v.Elems))
			path = append(path, pathStep{idx: i, isIdx: true})
			v = v.Elems[i]
		case "M":
			if len(v.Elems) == 0 {
				return path, v, true
			}
			i := g.n(len(v.Elems))
			path = append(path, pathStep{key: v.Keys[i]})
			v = v.Elems[i]
		case "T":
			var exp []int
			for i := range v.Elems {
				if v.Export[i] {
					exp = append(exp, i)
				}
			}
			if len(exp) == 0 {
				return path, v, true
			}
			i := exp[g.n(len(exp))]
			st := pathStep{key: v.Keys[i]}
			if g.chance(1, 2) {
				lc := strings.ToLower(v.Keys[i][:1]) + v.Keys[i][1:]
				if !containsStr(v.Keys, lc) {
					st.key, st.viaLc = lc, true
				}
			}
			path = append(path, st)
			v = v.Elems[i]
		default:
			return path, v, true
		}
	}
	return path, derefGV(v), true
}

func identLike(s string) bool {
	if s == "" || !(isWordByte(s[0]) && !(s[0] >= '0' && s[0] <= '9')) {
		return false
	}
	for i := 0; i < len(s); i++ {
		if !isWordByte(s[i]) {
			return false
		}
	}
	switch s {
	case "true", "false", "nil", "in":
		return false
	}
	return true
}

func pathSrc(root string, path []pathStep, g *Gen) string {
	s := root
	for _, p := range path {
		if p.isIdx {
			s += "[" + strconv.Itoa(p.idx) + "]"
		} else if identLike(p.key) && g.chance(1, 2) {
			s += "." + p.key
		} else {
			s += "[" + strconv.Quote(p.key) + "]"
		}
	}
	return s
}

// scalarText: how a scalar prints ("as the equal literal would")
func scalarText(v *GV) (string, bool) {
	switch v.K {
	case "N", "PN":
		return "", true
	case "B":
		if v.B {
			return "1", true
		}
		return "0", true
	case "I":
		return strconv.FormatInt(v.I, 10), true
	case "S":
		return v.S, true
	}
	return "", false
}

func casesC12(g *Gen) []*Case {
	var cs []*Case
	// pointers into the value itself (a pointer to its own first field, two pointers to one variable)
	{
		c := evalCase("internal_pointers", "{{ r.head }}-{{ r.active }}-{{ r.name }}|{{ r.next.head }}-{{ r.next.active }}-{{ r.next.next ? 1 : 0 }}", gvMap("r", gvNamed(4)))
		c.Oracle = expectOut("3-3-n|4-3-0")
		cs = append(cs, c)
	}
	// one access path over values of different shapes: a struct field reached by its lower-cased name, then a map
	// that holds both spellings as keys (and the other way round): every value answers for itself
	{
		st := &GV{K: "T", Keys: []string{"Name", "Age"}, Export: []bool{true, true}, Elems: []*GV{gvStr("S"), gvInt(3)}}
		both := gvMap("name", gvStr("lower"), "Name", gvStr("UPPER"), "age", gvInt(1), "Age", gvInt(2))
		only := gvMap("Name", gvStr("OnlyUpper"), "Age", gvInt(9))
		for src, want := range map[string]string{
			"@each(u in items){{ u.name }}{{ u.age }},@end":                                         "S3,lower1,OnlyUpper9,S3,lower1,",
			"@each(u in rev){{ u.name }}{{ u[\"name\"] }}{{ u.Name }},@end":                          "lowerlowerUPPER,SSS,lowerlowerUPPER,",
			"{{ items[0].name }}{{ items[1].name }}{{ items[0].name }}{{ items[1].Name }}":            "SlowerSUPPER",
			"@for(i = 0; i < 5; i++){{ items[i].name }}@end|@each(u in rev)@if(u.name == \"S\")s@else m@end@end": "SlowerOnlyUpperSlower| ms m",
		} {
			c := evalCase("one_path_many_shapes", src, gvMap("items", gvList(st, both, only, st, both), "rev", gvList(both, st, both)))
			c.Oracle = expectOut(want)
			cs = append(cs, c)
		}
		t := newTree()
		t.files["tpl/card.tw"] = "[{{ u.name }}|{{ u.age }}]"
		t.files["tpl/page.tw"] = `@each(u in items)@component("card", {u: u})@end@component("card", {u: items[1]})@component("card", {u: items[0]})`
		c := histCase("one_path_many_shapes", t, []string{opNew("tpl", ".tw", "", false), opStr("page", gvMap("items", gvList(st, both, only))), opStr("page", gvMap("items", gvList(both, st, both)))},
			"NewTemplate; a component file reads u.name of a struct, of a map with both spellings, of a map with the upper-case key only")
		c.Oracle = expectResults(map[int]func(string) string{0: wantNewOK, 1: wantOK("[S|3][lower|1][OnlyUpper|9][lower|1][S|3]"), 2: wantOK("[lower|1][S|3][lower|1][S|3][lower|1]")})
		cs = append(cs, c)
	}
	// embedded structs: a field named after the type when the type is exported, not reachable otherwise; nil or not
	for src, want := range map[string]string{
		"{{ a.EmbBase.ID }}{{ a.embBase.tag }}{{ a.name }}|{{ a }}":        "1tn|{EmbBase: {ID: 1, Tag: t}, Name: n}",
		"{{ b.name }}|{{ b }}":                                             "w|{Name: w}",
		"{{ c.name }}|{{ c.EmbBase ? 1 : 0 }}|{{ c }}":                      "w2|0|{EmbBase: , Name: w2}",
		"{{ d.name }}{{ d.EmbBase.ID }}{{ d.embBase.Tag }}|{{ d }}":         "w34u|{EmbBase: {ID: 4, Tag: u}, Name: w3}",
		"@each(v in [a, b, c, d]){{ v.name }},@end@dump(c)":                "",
	} {
		c := evalCase("embedded_structs", src, gvMap("a", gvNamed(7), "b", gvNamed(8), "c", gvNamed(9), "d", gvNamed(10)))
		if want != "" {
			c.Oracle = expectOut(want)
		}
		cs = append(cs, c)
	}
	for src, part := range map[string]string{"{{ b.embInner }}": "embInner", "{{ b.Pub }}": "Pub", "{{ a.ID }}": "ID", "{{ d.embInner.Pub }}": "embInner"} {
		part := part
		c := evalCase("embedded_structs", src, gvMap("a", gvNamed(7), "b", gvNamed(8), "c", gvNamed(9), "d", gvNamed(10)))
		c.Oracle = func(c *Case, impl string) string { return wantErr(part)(impl) }
		cs = append(cs, c)
	}
	// types that carry String / Error / Marshal* methods are converted by their kind, never through the method
	{
		data := gvMap("p", gvNamed(11), "e", gvNamed(12), "d", gvNamed(13), "lang", gvNamed(14), "lvl", gvNamed(15), "dur", gvNamed(16), "f", gvNamed(18), "ok", gvNamed(19), "c", gvNamed(20),
			"list", gvList(gvNamed(11), gvNamed(14), gvNamed(15)), "pp", &GV{K: "P", Elems: []*GV{gvNamed(11)}})
		for src, want := range map[string]string{
			"{{ p.amount }}|{{ p.Cur }}|{{ p }}":                                   "12|EUR|{Amount: 12, Cur: EUR}",
			"{{ pp.amount }}|{{ pp.cur }}":                                          "12|EUR",
			"{{ e.code }}|{{ e.msg }}|{{ e }}":                                     "7|boom|{Code: 7, Msg: boom}",
			"{{ d.title }}|{{ d.n }}|{{ d }}":                                      "T|2|{N: 2, Title: T}",
			"{{ lang }}|{{ lang == \"en\" }}|{{ lang.len() }}|{{ lang + \"!\" }}":   "en|1|2|en!",
			"{{ lvl }}|{{ lvl + 1 }}|{{ lvl == 3 }}":                               "3|4|1",
			"{{ dur }}|{{ dur / 1000000 }}":                                        "1500000000|1500",
			"{{ f }}|{{ f + 0.5 }}":                                                "2.5|3.0",
			"{{ ok ? \"y\" : \"n\" }}|{{ ok }}":                                    "y|1",
			"{{ list[0].amount }}|{{ list[1] }}|{{ list[2] }}|{{ list[1].len() }}": "12|en|3|2",
			"@each(x in c.prices){{ x.amount }}{{ x.cur }},@end":                   "1a,2b,",
			"{{ c.byName.x.amount }}{{ c.byName.x.cur }}":                          "3c",
			"@each(l in c.langs){{ l }},@end@each(l in c.levels){{ l }},@end":      "de,fr,1,2,",
			"{{ c.errs[0].code }}{{ c.errs[0].msg }}|{{ c.strs[0].amount }}|{{ c.strs[1] }}": "1e1|4|it",
		} {
			c := evalCase("types_with_methods", src, data)
			c.Oracle = expectOut(want)
			cs = append(cs, c)
		}
	}
	// nil pointers to types with methods are nil wherever they stand; a pointer that is set is its struct
	{
		data := gvMap("x", gvNamed(21), "y", gvNamed(22), "z", gvNamed(23))
		for src, want := range map[string]string{
			"{{ x.d ? 1 : 0 }}{{ x.p ? 1 : 0 }}{{ x.t ? 1 : 0 }}{{ x.u ? 1 : 0 }}{{ x.e ? 1 : 0 }}{{ x.ok }}": "000001",
			"[{{ x.d }}|{{ x.t }}|{{ x.u }}]":                                                                   "[||]",
			"{{ y.deleted ? 1 : 0 }}{{ y.site ? 1 : 0 }}{{ y.doc ? 1 : 0 }}{{ y.err ? 1 : 0 }}|{{ y.price.amount }} {{ y.price.cur }}|{{ y.name }}": "0000|5 USD|n",
			"{{ z.len() }}|{{ z[0] }}|{{ z[2] ? 1 : 0 }}|{{ z[3] ? 1 : 0 }}|{{ z[4] }}":                            "5||0|0|7",
		} {
			c := evalCase("nil_pointers_with_methods", src, data)
			c.Oracle = expectOut(want)
			cs = append(cs, c)
		}
	}
	// nil slices and nil maps are empty arrays and empty objects (a nil pointer is nil): typed or not, at the root, in fields, in containers
	{
		nl := func(typed bool) *GV { return &GV{K: "L", NilRef: true, Typed: typed} }
		nm := func(typed bool) *GV { return &GV{K: "M", NilRef: true, Typed: typed} }
		data := gvMap("tags", nl(true), "items", nl(false), "attrs", nm(true), "m", nm(false), "bag", gvNamed(17), "inner", gvMap("l", nl(true), "m", nm(true)),
			"ls", gvList(nl(true), nl(false), nm(true)), "pl", &GV{K: "P", Elems: []*GV{nl(true)}}, "np", &GV{K: "PN"})
		for src, want := range map[string]string{
			"{{ tags.len() }}|{{ items.len() }}|@each(t in tags)x@else none@end|@each(t in items)x@else none@end": "0|0| none| none",
			"[{{ tags }}]|{{ attrs }}|{{ m }}|{{ tags ? 1 : 0 }}|{{ attrs ? 1 : 0 }}|{{ m ? 1 : 0 }}":               "[]|{}|{}|1|1|1",
			"{{ tags.append(\"a\").len() }}|{{ items.append(1)[0] }}|{{ tags.join(\",\") }}|{{ tags.contains(\"a\") }}": "1|1||0",
			"{{ bag.tags.len() }}|{{ bag.items.len() }}|{{ bag.attrs }}|{{ bag.any }}|{{ bag.ptr ? 1 : 0 }}|@each(t in bag.tags)x@else none@end": "0|0|{}|{}|0| none",
			"{{ inner.l.len() }}|{{ inner.m }}|{{ ls[0].len() }}|{{ ls[1].len() }}|{{ ls[2] }}|{{ ls.len() }}":          "0|{}|0|0|{}|3",
			"{{ pl.len() }}|{{ np ? 1 : 0 }}|{{ np }}|":                                                            "0|0||",
			"{{ bag }}": "{Any: {}, Attrs: {}, Items: , Ptr: , Tags: }",
		} {
			c := evalCase("nil_containers", src, data)
			c.Oracle = expectOut(want)
			cs = append(cs, c)
		}
		for _, src := range []string{"@dump(tags)", "@dump(attrs)", "@dump(bag)", "@dump(np)"} {
			cs = append(cs, evalCase("nil_containers", src, data))
		}
	}
	// maps whose keys are not strings have no counterpart in a template: the call fails (and says so every time)
	for _, kind := range []string{"intkeymap", "boolkeymap", "mixedkeymap", "structkeymap", "emptyintkeymap", "floatkeymap"} {
		for _, wrap := range []func(*GV) *GV{func(x *GV) *GV { return x }, func(x *GV) *GV { return gvList(gvInt(1), x) }, func(x *GV) *GV { return gvMap("in", x) },
			func(x *GV) *GV { return &GV{K: "P", Elems: []*GV{x}} }} {
			c := evalCase("maps_with_other_keys", "[{{ 1 }}]", gvMap("ok", gvInt(1), "m", wrap(&GV{K: "O", Other: kind})))
			c.Oracle = func(c *Case, impl string) string { return wantErr("unsupported type")(impl) }
			cs = append(cs, c)
		}
	}
	// a map[any]T whose keys are all strings is a string-keyed map
	{
		m := gvMap("s", gvInt(1), "t", gvStr("v"), "Name", gvList(gvInt(2)))
		m.AKey = true
		c := evalCase("maps_with_other_keys", "{{ m.s }}|{{ m.t }}|{{ m.Name[0] }}|{{ m }}", gvMap("m", m))
		c.Oracle = expectOut("1|v|2|{Name: 2, s: 1, t: v}")
		cs = append(cs, c)
	}
	// root keys that look like names an engine might keep for itself: only `loop` is reserved
	for _, k := range []string{"global", "globals", "self", "this", "data", "env", "ctx", "context", "config", "slot", "slots", "page", "layout", "component", "components",
		"props", "args", "parent", "root", "item", "items", "index", "key", "value", "it", "site", "app", "request", "params", "vars", "scope", "super", "meta", "textwire", "tw",
		"template", "name", "path", "file", "line", "error", "errors", "message", "len", "str", "raw", "json", "dump", "reserve", "insert", "use", "each", "end", "loops", "Loop", "LOOP",
		"_", "__", "_loop", "first", "last", "iter", "html", "escape", "debug", "e", "t", "p", "l", "w", "ok", "err", "result", "out", "buf", "tmp", "x0", "arg0", "_0"} {
		if containsStr([]string{"in", "true", "false", "nil", "if", "else", "for", "end", "each", "use", "insert", "reserve", "dump"}, k) {
			continue
		}
		c := evalCase("reserved_looking_keys", "{{ "+k+" }}|{{ "+k+" + 1 }}", gvMap(k, gvInt(5)))
		c.Oracle = expectOut("5|6")
		cs = append(cs, c)
		c = evalCase("reserved_looking_keys", "{{ "+k+".title }}@each(v in "+k+".list){{ v }}@end", gvMap(k, gvMap("title", gvStr("T"), "list", gvList(gvInt(1), gvInt(2)))))
		c.Oracle = expectOut("T12")
		cs = append(cs, c)
	}
	// entries of one map that point into one another (a struct and its first field, an array and its first element)
	{
		c := evalCase("internal_pointers", "{{ d.name }}|{{ d.profile.name }}-{{ d.profile.age }}|{{ d.again.age }}|{{ d.zname }}|{{ d.profile }}", gvMap("d", gvNamed(5)))
		c.Oracle = expectOut("Ann|Ann-3|3|Ann|{Age: 3, Name: Ann}")
		cs = append(cs, c)
		c = evalCase("internal_pointers", "{{ d.a_profile.name }}{{ d.a_profile.age }}|{{ d.b_name }}|{{ d.c_first }}|{{ d.d_all }}|{{ d.d_all[1] }}", gvMap("d", gvNamed(6)))
		c.Oracle = expectOut("Bo4|Bo|7|7, 8|8")
		cs = append(cs, c)
	}
	// different struct types that share one name, rendered one after the other in one process
	{
		srcs := []string{"{{ r.a }}-{{ r.b }}", "{{ r.b }}-{{ r.c }}-{{ r.a }}", "{{ r.name }}-{{ r.tags[0] }}-{{ r.tags.len() }}", "[{{ r }}]"}
		wants := []string{"1-x", "y-1-2", "n-t-1", ""}
		orders := [][]int64{{0, 1, 2, 3}, {1, 0, 3, 2}, {2, 1, 0}, {3, 2, 0, 1}, {1, 2}, {2, 0, 1, 0, 2}}
		for _, ord := range orders {
			var ops []string
			var note []string
			checks := map[int]func(string) string{}
			for _, k := range ord {
				if wants[k] != "" {
					checks[len(ops)] = wantOK(wants[k])
				}
				ops = append(ops, opEvs(srcs[k], gvMap("r", gvNamed(k), "list", gvList(gvNamed(k), gvNamed((k+1)%3)))))
				note = append(note, fmt.Sprintf("Rec#%d", k))
			}
			c := histCase("same_name_struct_types", newTree(), ops, "EvaluateString with struct types that are all named Rec: "+strings.Join(note, ", "))
			c.Oracle = expectResults(checks)
			cs = append(cs, c)
		}
	}
	for i := 0; i < g.scale(8000, 150000); i++ {
		root := g.goValue(4, g.chance(1, 5))
		data := gvMap("d", root)
		if root.hasOther() && !root.hasOtherReachable() {
			continue // an unsupported value inside an unexported field is never looked at
		}
		if root.hasOther() {
			c := evalCase("unsupported_is_error", "x{{ 1 }}", data)
			c.Oracle = func(c *Case, impl string) string {
				if strings.HasPrefix(impl, "ERR ") {
					return ""
				}
				return "a value of an unsupported kind in the data must make the call return an error: " + describe(impl)
			}
			cs = append(cs, c)
			continue
		}
		path, leaf, _ := g.randomPath(root, 1+g.n(4))
		src := "[{{ " + pathSrc("d", path, g) + " }}]"
		okKeys := true
		for _, p := range path {
			if !p.isIdx && strings.ContainsAny(p.key, "\"\\") {
				okKeys = false
			}
		}
		if !okKeys {
			continue
		}
		c := evalCase("access_paths", src, data)
		if want, ok := scalarText(leaf); ok {
			c.Oracle = expectOut("[" + want + "]")
		} else {
			c.Family = "access_paths_compound"
			c.Oracle = func(c *Case, impl string) string {
				if strings.HasPrefix(impl, "OK") {
					return ""
				}
				return "a reachable value must render: " + describe(impl)
			}
		}
		cs = append(cs, c)
		// the shape of a compound leaf: an array has a length and iterates that many times, an object prints in braces
		if leaf.K == "L" {
			ps := pathSrc("d", path, g)
			n := len(leaf.Elems)
			c3 := evalCase("leaf_shape", "[{{ "+ps+".len() }}]", data)
			c3.Oracle = expectOut(fmt.Sprintf("[%d]", n))
			if n == 0 {
				c3 = evalCase("leaf_shape", "[{{ "+ps+".len() }}|@each(v in "+ps+")x@else"+"e@end]", data)
				c3.Oracle = expectOut("[0|e]")
			}
			cs = append(cs, c3)
		}
		if leaf.K == "M" || leaf.K == "T" {
			c3 := evalCase("leaf_shape", "{{ "+pathSrc("d", path, g)+" }}", data)
			c3.Oracle = func(c *Case, impl string) string {
				out, ok := outOf(impl)
				if !ok || !strings.HasPrefix(out, "{") || !strings.HasSuffix(out, "}") {
					return "an object must print in braces: " + describe(impl)
				}
				return ""
			}
			cs = append(cs, c3)
		}
		// the whole value prints / dumps / iterates without failing
		if g.chance(1, 4) {
			c2 := evalCase("whole_value", g.pick([]string{"{{ d }}", "@dump(d)"}), data)
			c2.Oracle = func(c *Case, impl string) string {
				if strings.HasPrefix(impl, "OK") {
					return ""
				}
				return "supported data must render: " + describe(impl)
			}
			cs = append(cs, c2)
		}
	}
	// keys that differ only in the case of their first letter are different keys
	both := gvMap("name", gvStr("lower"), "Name", gvStr("upper"), "deep", gvList(gvMap("item", gvMap("name", gvStr("n1")), "Item", gvNil())))
	for src, want := range map[string]string{"{{ d.name }}": "lower", "{{ d.Name }}": "upper", `{{ d["name"] }}`: "lower", `{{ d["Name"] }}`: "upper", "{{ d.deep[0].item.name }}": "n1"} {
		c := evalCase("case_variants", src, gvMap("d", both))
		c.Oracle = expectOut(want)
		cs = append(cs, c)
	}
	// unexported fields are not reachable
	st := &GV{K: "T", Keys: []string{"Name", "secret"}, Export: []bool{true, false}, Elems: []*GV{gvStr("n"), gvStr("s")}}
	for _, src := range []string{"{{ d.secret }}", "{{ d.Secret }}", "{{ d[\"secret\"] }}"} {
		c := evalCase("unexported_unreachable", src, gvMap("d", st))
		c.Oracle = func(c *Case, impl string) string {
			if strings.HasPrefix(impl, "ERR ") {
				return ""
			}
			return "an unexported field was reachable: " + describe(impl)
		}
		cs = append(cs, c)
	}
	// all integer widths, floats, print as literals
	for _, kd := range []reflect.Kind{reflect.Int, reflect.Int8, reflect.Int16, reflect.Int32, reflect.Int64, reflect.Uint, reflect.Uint8, reflect.Uint16, reflect.Uint32, reflect.Uint64} {
		for _, v := range []int64{0, 1, 100, 127} {
			gv := gvInt(v)
			gv.IKind = kd
			c := evalCase("int_widths", "{{ d }}|{{ d + 1 }}|{{ d == "+strconv.FormatInt(v, 10)+" }}", gvMap("d", gv))
			c.Oracle = expectOut(fmt.Sprintf("%d|%d|1", v, v+1))
			cs = append(cs, c)
		}
	}
	for _, f := range []float64{0, 1.5, -2.25, 3, 0.1} {
		for _, f32 := range []bool{false, true} {
			if f32 && float64(float32(f)) != f {
				continue
			}
			gv := gvFloat(f)
			gv.F32 = f32
			lit := fmtFloatLit(f)
			if f < 0 {
				lit = "(0.0 - " + lit + ")"
			}
			c := evalCase("float_as_literal", "{{ d == "+lit+" }}|{{ d }}", gvMap("d", gv))
			c.Spec = nil
			c.Oracle = func(c *Case, impl string) string {
				out, ok := outOf(impl)
				if !ok || !strings.HasPrefix(out, "1|") {
					return "a float in the data does not equal the same literal: " + describe(impl)
				}
				return ""
			}
			cs = append(cs, c)
		}
	}
	return cs
}
