package main

// Families for the lexer / text-level properties: C05 (text passthrough), C08 (termination and
// rejection), C19 (token positions).

import (
	"time"
	"fmt"
	"sort"
	"strconv"
	"strings"
)

var directiveKeywords = []string{"@if", "@else", "@elseif", "@end", "@use", "@reserve", "@insert", "@for", "@each",
	"@continue", "@continueIf", "@break", "@breakIf", "@component", "@slot", "@dump"}

func sigma() []string {
	syms := []string{"@", "\\", "{", "}", "{{", "}}", "-", "--", "{{--", "--}}", "(", ")", "x", " ", "\n", "\r", "é", "\xff", "if", "If", "i", "I", "\"", "\xef\xbb\xbf", "\x00"}
	seen := map[string]bool{}
	for _, s := range syms {
		seen[s] = true
	}
	for _, d := range directiveKeywords {
		for i := 2; i <= len(d); i++ {
			p := d[:i]
			if !seen[p] && (i == len(d) || i == 2 || i == len(d)-1) {
				seen[p] = true
				syms = append(syms, p)
			}
		}
	}
	return syms
}

// isPlain: no "{{" and no '@' at which a directive keyword starts (the statement of C05)
func isPlain(s string) bool {
	if strings.Contains(s, "{{") {
		return false
	}
	for i := 0; i < len(s); i++ {
		if s[i] == '@' {
			for _, d := range directiveKeywords {
				if strings.HasPrefix(s[i:], d) {
					return false
				}
			}
		}
	}
	return true
}

func evalCase(family, src string, data *GV) *Case {
	if data == nil {
		data = gvMap()
	}
	return &Case{Kind: "eval", Fields: []string{hx(src), data.Term()}, Family: family, Note: src}
}

func lexCase(family, src string) *Case {
	return &Case{Kind: "lex", Fields: []string{hx(src)}, Family: family, Note: src}
}

func expectOut(want string) func(*Case, string) string {
	return func(c *Case, impl string) string {
		if impl == "OK "+hxOut(want) {
			return ""
		}
		return fmt.Sprintf("expected output %q, the implementation returned %s", want, describe(impl))
	}
}

func describe(impl string) string {
	f := strings.Fields(impl)
	if len(f) >= 2 && f[0] == "OK" {
		return fmt.Sprintf("output %q", unhx(f[1]))
	}
	if len(f) == 1 && f[0] == "OK" {
		return `output ""`
	}
	if len(f) >= 4 && f[0] == "ERR" {
		return fmt.Sprintf("error line %s: %q", f[1], unhx(f[3]))
	}
	return clip(impl, 200)
}

// enumerate all strings of exactly n symbols
func sigmaStrings(syms []string, n int, f func(string)) {
	idx := make([]int, n)
	for {
		var sb strings.Builder
		for _, i := range idx {
			sb.WriteString(syms[i])
		}
		f(sb.String())
		k := n - 1
		for k >= 0 {
			idx[k]++
			if idx[k] < len(syms) {
				break
			}
			idx[k] = 0
			k--
		}
		if k < 0 {
			return
		}
	}
}

func (g *Gen) sigmaRandom(syms []string, maxLen int) string {
	n := 1 + g.n(maxLen)
	var sb strings.Builder
	for i := 0; i < n; i++ {
		sb.WriteString(g.pick(syms))
	}
	return sb.String()
}

func casesC05(g *Gen) []*Case {
	var cs []*Case
	syms := sigma()
	seen := map[string]bool{}
	add := func(c *Case) {
		k := c.Family + "\x00" + c.Note
		if !seen[k] {
			seen[k] = true
			cs = append(cs, c)
		}
	}
	addText := func(s string) {
		if isPlain(s) {
			c := evalCase("plain_identity", s, nil)
			c.Oracle = expectOut(s)
			c.Trivial = len(s) == 0
			add(c)
		} else {
			add(evalCase("sigma_correspondence", s, nil))
		}
	}
	maxExh := g.scale(2, 3)
	for n := 0; n <= maxExh; n++ {
		sigmaStrings(syms, n, addText)
	}
	for i := 0; i < g.scale(6000, 150000); i++ {
		addText(g.sigmaRandom(syms, g.scale(10, 40)))
	}
	// text around code blocks that hold strings with escapes, semicolons, assignments: the text comes out as it is
	codeSyms := append(append([]string{}, syms...), `{{ "q\"q" }}`, `{{ 'it\'s' }}`, `{{ y = 1; }}`, `{{ 1; }}`, `{{ "a\\" }}`, `;`, `{{ "s" }}`, `{{ 1 }}`, `{{ y = "v" }}`, `{{ "\n" }}`,
		"text", "<b>", "{{ \"a\\{{b\" }}", "{{ [1, \"x\\\"y\"] }}")
	for i := 0; i < g.scale(3000, 60000); i++ {
		addText(g.sigmaRandom(codeSyms, g.scale(6, 14)))
	}
	for src, want := range map[string]string{`{{ "say \"hi\"" }} text {{ 'it\'s' }}!`: `say "hi" text it's!`, `a{{ "x\"" }}b{{ "y" }}c`: `ax"byc`,
		`{{ "a\"b" }}{{-- c --}} tail`: `a"b tail`, `@if(true){{ 'q\'' }}in@end out`: `q'in out`, `{{ ["x\"y"][0] }} z`: `x"y z`,
		`{{ y = 1; }}text`: "ERR", `<ul>{{ y = 1; }}<li>first</li>{{ y }}</ul>`: "ERR", `{{ 1; }}t{{ 2 }}`: "ERR"} {
		c := evalCase("text_after_code_blocks", src, nil)
		if want == "ERR" {
			c.Oracle = func(c *Case, impl string) string { return wantErr("")(impl) }
		} else {
			c.Oracle = expectOut(want)
		}
		add(c)
	}
	// bytes that editors add or strip: a byte order mark at the start (and elsewhere), NUL, other white space
	for _, pre := range []string{"\xef\xbb\xbf", "\xef\xbb\xbf\xef\xbb\xbf", "\xfe\xff", "\x00", "\v\f", "\u00a0", "\u2028\u2029", "\r\n", "\n\n"} {
		for _, body := range []string{"", "text", "{{ 1 }}", "\ntext {{ \"x\" }}", "@if(true)y@end", pre} {
			src := pre + body
			want := src
			switch body {
			case "{{ 1 }}":
				want = pre + "1"
			case "\ntext {{ \"x\" }}":
				want = pre + "\ntext x"
			case "@if(true)y@end":
				want = pre + "y"
			}
			c := evalCase("leading_special_bytes", src, nil)
			c.Oracle = expectOut(want)
			add(c)
			t := newTree()
			t.files["f/x.tw"] = src
			ch := histCase("leading_special_bytes_file", t, []string{opEvf("f/x.tw", nil)}, "EvaluateFile of "+strconv.Quote(src))
			ch.Oracle = expectResults(map[int]func(string) string{0: wantOK(want)})
			add(ch)
		}
	}
	// two different text runs of one length whose usual 32-bit checksums are equal
	for _, col := range collidingPairs("c05", numShape("</td><td class=\"c", "\">")) {
		src := col.a + "{{ 1 }}" + col.b + "{{ 2 }}" + col.a + "@if(true)" + col.b + "@end"
		c := evalCase("checksum_twins", src, nil)
		c.Oracle = expectOut(col.a + "1" + col.b + "2" + col.a + col.b)
		c.Tags = []string{col.fn}
		add(c)
	}
	// directive names in another letter case are text (or a shorter directive followed by text)
	for _, kw := range directiveKeywords {
		vars := map[string]bool{}
		name := kw[1:]
		vars["@"+strings.ToUpper(name)] = true
		vars["@"+strings.ToUpper(name[:1])+name[1:]] = true
		vars["@"+strings.ToLower(name)] = true
		for i := 1; i < len(name); i++ {
			vars["@"+name[:i]+strings.ToUpper(name[i:i+1])+name[i+1:]] = true
			vars["@"+name[:i]+strings.ToLower(name[i:i+1])+name[i+1:]] = true
		}
		for v := range vars {
			if containsStr(directiveKeywords, v) {
				continue
			}
			// the longest directive the variant starts with (then the rest is text after that directive)
			pre := ""
			for _, d := range directiveKeywords {
				if strings.HasPrefix(v, d) && len(d) > len(pre) {
					pre = d
				}
			}
			for _, src := range []string{v + "(true)b", "@each(v in [1, 2])" + v + "(v == 1)z@end"} {
				add(evalCase("directive_other_case", src, nil))
			}
			type ex struct{ src, want string }
			var exs []ex
			switch pre {
			case "":
				exs = []ex{{"x " + v + " y", "x " + v + " y"}, {"@if(true)" + v + "@end", v}, {"@if(false)a" + v + "(true)b@end", ""}, {"@if(true)a" + v + "(false)b@end", "a" + v + "(false)b"}}
			case "@else":
				rest := v[len("@else"):]
				exs = []ex{{"@if(false)a" + v + "(true)b@end", rest + "(true)b"}, {"@if(true)a" + v + "(true)b@end", "a"}}
			}
			for _, e := range exs {
				c := evalCase("directive_other_case", e.src, nil)
				c.Oracle = expectOut(e.want)
				add(c)
			}
		}
	}
	// text that starts with a parenthesis right after a directive that takes none
	for src, want := range map[string]string{
		"@if(true)yes@end(ok)": "yes(ok)", "@if(false)a@else(b)@end": "(b)", "@each(v in [1, 2])@break(x)@end!": "!", "@each(v in [1, 2])@continue(x)@end!": "!",
		"@each(v in [1])@if(true)@end(z){{ v }}@end": "(z)1", "@if(true)@end()": "()", "@if(false)@else(@end": "(",
	} {
		c := evalCase("paren_after_parenless_directive", src, nil)
		c.Oracle = expectOut(want)
		add(c)
	}
	// plain text generator (to reach long plain strings)
	plainSyms := []string{"@", "\\", "{", "}", "}}", "-", "--", "--}}", "(", ")", "x", " ", "\n", "\r", "é", "\xff", "@i", "@els", "@en", "@ ", "@@", "{ {", "\\\\", "<p>", "a@b.c", "\xef\xbb\xbf", "\xef\xbb", "\x00", "\v", "\f", "\u00a0", "\u2028"}
	plain := func(maxLen int) string {
		for {
			s := g.sigmaRandom(plainSyms, maxLen)
			if isPlain(s) {
				return s
			}
		}
	}
	for i := 0; i < g.scale(2000, 40000); i++ {
		addText(plain(30))
	}
	// escapes: a + "\" + m + b
	ms := append([]string{"{{"}, directiveKeywords...)
	for i := 0; i < g.scale(3000, 60000); i++ {
		a, bb := plain(6), plain(6)
		if strings.HasSuffix(a, "\\") || strings.HasPrefix(bb, "{") || g.chance(1, 6) {
			a = strings.TrimRight(a, "\\")
		}
		if strings.HasPrefix(bb, "{") {
			bb = "x" + bb
		}
		m := g.pick(ms)
		if !isPlain(m+bb) && m != "{{" {
			// the keyword followed by b must not form a longer keyword starting elsewhere; fine
		}
		if !isPlainAfter(m, bb) {
			continue
		}
		src := a + "\\" + m + bb
		c := evalCase("escape_removed", src, nil)
		c.Oracle = expectOut(a + m + bb)
		add(c)
	}
	// comments: a + "{{--" + c + "--}}" + b
	cSyms := []string{"}", "}}", "-", "--", "--}", "-}}", "{{", "{{ x }}", "@if(x)", "@end", "\n", "\\", "x", " ", "{{--", "é", "\"", "--x}", "}}--"}
	for i := 0; i < g.scale(4000, 80000); i++ {
		a, bb := plain(5), plain(5)
		a = strings.TrimRight(a, "\\{")
		body := g.sigmaRandom(cSyms, 6)
		if g.chance(1, 8) {
			body = ""
		}
		if strings.Contains(body, "--}}") {
			continue
		}
		src := a + "{{--" + body + "--}}" + bb
		c := evalCase("comment_silent", src, nil)
		c.Oracle = expectOut(a + bb)
		add(c)
	}
	// text spliced around blocks and directives
	for i := 0; i < g.scale(2000, 40000); i++ {
		a, m, bb := plain(6), plain(4), plain(6)
		a = strings.TrimRight(a, "\\{")
		m = strings.TrimRight(m, "\\{")
		mid := m
		if mid == "" {
			mid = "y"
		}
		if strings.HasPrefix(mid, "(") || strings.HasPrefix(bb, "(") {
			// "(" directly after "@end" / "@else" is still text
		}
		switch g.n(4) {
		case 0:
			c := evalCase("spliced_braces", a+"{{ 1 + 2 }}"+bb, nil)
			c.Oracle = expectOut(a + "3" + bb)
			add(c)
		case 1:
			c := evalCase("spliced_if", a+"@if(true)"+mid+"@end"+bb, nil)
			c.Oracle = expectOut(a + mid + bb)
			add(c)
		case 2:
			c := evalCase("spliced_if_else", a+"@if(false)Q@else"+ensureNoKeywordGlue(mid)+"@end"+bb, nil)
			c.Oracle = expectOut(a + ensureNoKeywordGlue(mid) + bb)
			add(c)
		default:
			c := evalCase("spliced_each", a+"@each(v in [1,2])"+mid+"@end"+bb, nil)
			c.Oracle = expectOut(a + mid + mid + bb)
			add(c)
		}
	}
	// an escaped "{{" directly followed by a third brace: the backslash goes, one brace is text and the next two open a block
	for src, want := range map[string]string{
		"\\{{{ n }}}":              "{7}",
		"a\\{{{ 1 + 2 }}}b":        "a{3}b",
		"<b>\\{{{ n }}}</b>\n":     "<b>{7}</b>\n",
		"\\{{{ n }}}\\{{{ n }}}":    "{7}{7}",
		"x \\{{{ \"s\" }}} y":       "x {s} y",
		"\\{{ n }} \\{{{ n }}}":     "{{ n }} {7}",
		"@if(true)\\{{{ n }}}@end": "{7}",
		"{{ n }}\\{{{ n }}}{{ n }}": "7{7}7",
	} {
		c := evalCase("escaped_braces_before_a_block", src, gvMap("n", gvInt(7)))
		c.Oracle = expectOut(want)
		add(c)
	}
	// prose that follows @else / @end / a loop's @else directly is text, whatever English it begins with
	for _, t := range []string{" if you have not paid yet, please do.", " if (n) is not one", " if", "  if (x)", "\nif (x) y", " IF x", "If (x)", " elseif", " else", ": if (a) b",
		" (see below)", "(optional)", " in time", " end", "s", " for you", " each one", "If", "IF", "i", "I f"} {
		for src, want := range map[string]string{
			"@if(false)A@else" + t + "@end|":           t + "|",
			"@if(true)A@else" + t + "@end|":            "A|",
			"@if(true)A@end" + t + "|":                 "A" + t + "|",
			"@each(v in [])x@else" + t + "@end|":       t + "|",
			"@each(v in [1])x@end" + t + "|":           "x" + t + "|",
			"@for(i = 0; i < 0; i++)x@else" + t + "@end|": t + "|",
		} {
			if strings.HasPrefix(t, "if") {
				continue
			}
			c := evalCase("prose_after_else_and_end", src, nil)
			c.Oracle = expectOut(want)
			add(c)
		}
	}
	return cs
}

// text right after "@else" must not turn it into "@elseif"
func ensureNoKeywordGlue(s string) string {
	if strings.HasPrefix(s, "if") {
		return " " + s
	}
	return s
}

// after an escaped m, is the rest (m without its first byte, then b) plain text
func isPlainAfter(m, b string) bool {
	rest := m[1:] + b
	if m == "{{" {
		rest = "{" + b
		if strings.HasPrefix(b, "{") {
			return false
		}
	}
	return isPlain(rest)
}

// ---------------------------------------------------------------------------------------------
// C19

type tokRec struct {
	ty, lit        string
	sl, sc, el, ec int
}

func parseToks(ans string) ([]tokRec, bool) {
	if !strings.HasPrefix(ans, "TOKS ") {
		return nil, false
	}
	body := strings.TrimPrefix(ans, "TOKS ")
	if i := strings.LastIndex(body, " inside="); i >= 0 {
		body = body[:i]
	}
	var out []tokRec
	for _, t := range strings.Split(body, ",") {
		p := strings.Split(t, ":")
		if len(p) != 6 {
			return nil, false
		}
		r := tokRec{ty: p[0], lit: unhx(p[1])}
		r.sl, _ = strconv.Atoi(p[2])
		r.sc, _ = strconv.Atoi(p[3])
		r.el, _ = strconv.Atoi(p[4])
		r.ec, _ = strconv.Atoi(p[5])
		out = append(out, r)
	}
	return out, true
}

// posOf: zero-based line and byte column of offset i
func posTable(src string) (line, col []int) {
	line = make([]int, len(src)+1)
	col = make([]int, len(src)+1)
	l, c := 0, 0
	for i := 0; i <= len(src); i++ {
		line[i], col[i] = l, c
		if i < len(src) {
			if src[i] == '\n' {
				l++
				c = 0
			} else {
				c++
			}
		}
	}
	return
}

func stripEscapes(s string) string { return stripEscapesIn(s, 0, len(s)) }

// stripEscapesIn removes the escaping backslashes from src[a:b]; what a backslash escapes is
// decided by the bytes that follow it in the whole source
func stripEscapesIn(src string, a, b int) string {
	var sb strings.Builder
	s := src
	for i := a; i < b; i++ {
		if s[i] == '\\' && i+1 < len(s) {
			rest := s[i+1:]
			esc := strings.HasPrefix(rest, "{{")
			for _, d := range directiveKeywords {
				if strings.HasPrefix(rest, d) {
					esc = true
				}
			}
			if esc {
				continue
			}
		}
		sb.WriteByte(s[i])
	}
	return sb.String()
}

func isWsOrComment(gap string) bool {
	for len(gap) > 0 {
		switch gap[0] {
		case ' ', '\t', '\n', '\r':
			gap = gap[1:]
			continue
		}
		if strings.HasPrefix(gap, "{{--") {
			// a comment: "{{--" … "--}}"
			if i := strings.Index(gap[4:], "--}}"); i >= 0 {
				gap = gap[4+i+4:]
				continue
			}
			return true // unterminated comment runs to the end
		}
		return false
	}
	return true
}

// oracleC19 checks the statement of C19 on the implementation's token list
func oracleC19(c *Case, impl string) string {
	src := c.Note
	toks, ok := parseToks(impl)
	if !ok {
		return "no token list: " + clip(impl, 120)
	}
	line, col := posTable(src)
	off := map[[2]int]int{}
	for i := 0; i <= len(src); i++ {
		if _, dup := off[[2]int{line[i], col[i]}]; !dup {
			off[[2]int{line[i], col[i]}] = i
		}
	}
	prevEnd := 0 // offset just past the previous token
	inCode := false
	for k, t := range toks {
		if t.ty == "EOF" {
			if k != len(toks)-1 {
				return "EOF is not the last token"
			}
			if t.sl != line[len(src)] || t.sc != col[len(src)] || t.el != t.sl || t.ec != t.sc {
				return fmt.Sprintf("EOF token at %d:%d..%d:%d, the end of the input is %d:%d", t.sl, t.sc, t.el, t.ec, line[len(src)], col[len(src)])
			}
			if gap := src[prevEnd:]; !isWsOrComment(gap) {
				return fmt.Sprintf("bytes %q before the end are covered by no token", gap)
			}
			continue
		}
		a, okA := off[[2]int{t.sl, t.sc}]
		bInc, okB := off[[2]int{t.el, t.ec}]
		if !okA || !okB {
			return fmt.Sprintf("token %d (%s) has a position outside the source: %d:%d..%d:%d", k, t.ty, t.sl, t.sc, t.el, t.ec)
		}
		bEx := bInc + 1
		if a < prevEnd {
			return fmt.Sprintf("token %d (%s %q) starts at offset %d, before the end %d of the previous token", k, t.ty, t.lit, a, prevEnd)
		}
		if bEx <= a || bEx > len(src) {
			return fmt.Sprintf("token %d (%s %q) spans offsets [%d,%d)", k, t.ty, t.lit, a, bEx)
		}
		text := src[a:bEx]
		okText := false
		switch t.ty {
		case "HTML":
			okText = stripEscapesIn(src, a, bEx) == t.lit
		case "STR":
			q := text[0]
			if q == '"' || q == '\'' {
				raw := text[1:]
				if len(raw) > 0 && raw[len(raw)-1] == q && (len(raw) < 2 || raw[len(raw)-2] != '\\' || true) {
					closed := strings.ReplaceAll(raw[:len(raw)-1], "\\"+string(q), string(q))
					okText = closed == t.lit
				}
				if !okText && bEx == len(src) { // unterminated string at the end of the input
					okText = strings.ReplaceAll(raw, "\\"+string(q), string(q)) == t.lit
				}
			}
		default:
			okText = text == t.lit
		}
		if !okText {
			return fmt.Sprintf("token %d (%s) has literal %q but covers the bytes %q", k, t.ty, t.lit, text)
		}
		gap := src[prevEnd:a]
		if !isWsOrComment(gap) {
			return fmt.Sprintf("bytes %q between tokens %d and %d are covered by no token", gap, k-1, k)
		}
		_ = inCode
		prevEnd = bEx
	}
	// a cursor lies in the range of at most one token: the one covering that byte
	// (as Position.Contains itself answers: the "cover=" table comes from the real method)
	if j := strings.LastIndex(impl, " cover="); j >= 0 && len(src) > 0 {
		cov := strings.Split(impl[j+len(" cover="):], ".")
		if len(cov) != len(src) {
			return fmt.Sprintf("cover table has %d entries for %d bytes", len(cov), len(src))
		}
		owner := make([]string, len(src))
		for i := range owner {
			owner[i] = "-"
		}
		for k, t := range toks {
			if t.ty == "EOF" {
				continue
			}
			a := off[[2]int{t.sl, t.sc}]
			bInc := off[[2]int{t.el, t.ec}]
			for i := a; i <= bInc && i < len(src); i++ {
				owner[i] = strconv.Itoa(k)
			}
		}
		for i := range cov {
			if cov[i] != owner[i] {
				return fmt.Sprintf("Position.Contains(%d,%d): tokens %s contain the cursor, the byte is covered by token %s", line[i], col[i], cov[i], owner[i])
			}
		}
	}
	for i := 0; i < len(src); i++ {
		n := 0
		for _, t := range toks {
			if t.ty == "EOF" {
				continue
			}
			if posContains(t, line[i], col[i]) {
				n++
			}
		}
		if n > 1 {
			return fmt.Sprintf("the cursor %d:%d lies in the range of %d tokens", line[i], col[i], n)
		}
	}
	return ""
}

func posContains(t tokRec, l, c int) bool {
	if l < t.sl || l > t.el {
		return false
	}
	if l == t.sl && c < t.sc {
		return false
	}
	if l == t.el && c > t.ec {
		return false
	}
	return true
}

func casesC19(g *Gen) []*Case {
	var cs []*Case
	seen := map[string]bool{}
	add := func(fam, s string) {
		if seen[s] {
			return
		}
		seen[s] = true
		c := lexCase(fam, s)
		c.Oracle = oracleC19
		c.Trivial = len(s) == 0
		cs = append(cs, c)
	}
	syms := append(sigma(), "\"a b\"", "'q'", "1", "2.5", "+", "++", "==", "<=", "[", "]", ",", ".", "\"a\nb\"", "\r\n", "$", "`", "\"un", "name", "true", ":", "?", ";", "%")
	for n := 0; n <= g.scale(2, 2); n++ {
		sigmaStrings(syms, n, func(s string) { add("sigma_exhaustive", s) })
	}
	for i := 0; i < g.scale(15000, 400000); i++ {
		add("sigma_random", g.sigmaRandom(syms, g.scale(12, 40)))
	}
	// structured templates
	for i := 0; i < g.scale(3000, 60000); i++ {
		add("templates", g.template(stdScope(), 3))
	}
	// inside code: token soups between {{ }}
	code := []string{"1", "2.5", "\"s\"", "'t'", "x", "name", "+", "-", "*", "/", "%", "++", "--", "==", "!=", "<", ">", "<=", ">=", "!", "=", "?", ":", ",", ".", ";", "(", ")", "[", "]", "{", "}", " ", "\n", "\t", "\r\n", "true", "nil", "in", "$", "#", "\"a\nb\"", "\"q\\\"q\"", "é",
		// bytes and characters that some notion of white space includes and the lexer's does not
		"\v", "\f", "à", "Å", "Р", "х", "\x85", "\xa0", "\u0085", "\u00a0", "\u2003", "\u3000", "\x00", "\x1c", "\ufeff",
		"\u200b", "\u200c", "\u200d", "\u2060", "\u00ad", "\u180e", "\xe2\x80", "\xe2"}
	for i := 0; i < g.scale(8000, 200000); i++ {
		pre := g.pick([]string{"", "ab\n", "é ", "\n\n"})
		add("code_soup", pre+"{{ "+g.sigmaRandom(code, 10)+" }}"+g.pick([]string{"", "z", "\n@end"}))
	}
	// very long lines (minified markup, inlined images): columns beyond 16 bits
	for _, n := range []int{65530, 65536, 70001} {
		long := "<p>" + strings.Repeat("a", n) + "{{ x }}tail\nnext {{ y }}\n@if(z)q@end"
		c := lexCase("long_line", long)
		c.Oracle = oracleC19
		c.Timeout = 60 * time.Second
		cs = append(cs, c)
	}
	return cs
}

// ---------------------------------------------------------------------------------------------
// C08

// oracleC08: lexing + parsing returned, and ended in output or in an error with a line ≥ 1
func oracleC08(mustFail bool) func(*Case, string) string {
	return func(c *Case, impl string) string {
		f := strings.Fields(impl)
		if len(f) == 0 {
			return "no answer"
		}
		switch f[0] {
		case "OK":
			if mustFail {
				return "the template is a proper prefix of a valid template that ends inside a construct (or contains an illegal character) but was accepted: " + describe(impl)
			}
			return ""
		case "ERR":
			if len(f) >= 2 {
				if n, err := strconv.Atoi(f[1]); err == nil && n >= 1 {
					return ""
				}
				// evaluation errors about data have line 0; parse errors must carry a line
				return "an error without a line number: " + describe(impl)
			}
		}
		return "neither output nor an error: " + clip(impl, 200)
	}
}

func casesC08(g *Gen) []*Case {
	var cs []*Case
	seen := map[string]bool{}
	add := func(fam, s string, mustFail bool) {
		if seen[s] {
			return
		}
		seen[s] = true
		c := evalCase(fam, s, stdScope().data)
		c.Oracle = oracleC08(mustFail)
		c.Trivial = len(s) == 0
		c.Timeout = 0
		cs = append(cs, c)
	}
	// degenerate names of layouts and components: loading returns with an error
	for _, bad := range []string{`@use("~")`, `@component("~")`, `@use("~/")`, `@use("")`, `@component("")`, `@component("~/")`, `@use("~~")`, `@use("/")`, `@component("/")`,
		`@use(".")`, `@component("..")`, `@insert("")x@end`, `@use("~")@insert("a")x@end`, `@component("~")@slot("")y@end@end`, `@reserve("")`, `@each(v in [1])@component("~")@end`} {
		t := newTree()
		t.files["tpl/p.tw"] = bad
		t.dirs = []string{"tpl/layouts", "tpl/components"}
		c := histCase("degenerate_names", t, []string{opNew("tpl", ".tw", "", false), opStr("p", nil)}, "NewTemplate over a page holding "+bad)
		c.Oracle = func(c *Case, impl string) string {
			for _, r := range results(impl) {
				if !(strings.HasPrefix(r, "NEWOK") || strings.HasPrefix(r, "NEWERR ") || strings.HasPrefix(r, "OK") || strings.HasPrefix(r, "ERR ") || strings.HasPrefix(r, "OSERR ") || r == "NOTPL") {
					return "loading and rendering must return a result or an error: " + clip(r, 200)
				}
			}
			return ""
		}
		cs = append(cs, c)
		c2 := evalCase("degenerate_names", bad, nil)
		c2.Oracle = oracleC08(false)
		cs = append(cs, c2)
	}
	// malformed arguments of every directive that takes expressions: rejected with an error, never a crash
	for _, arg := range []string{"[,]", "x.f(,)", "a[]]", "{a: [,]}", "1 +", "[1, ", "{a: }", ",", "[[,]]", "x[", "x.", "x.f(", "(", "()", "{,}", "{a b}", "[1 2]", "x ? : y", "-", "!"} {
		for _, frame := range []string{`@component("c", %s)`, `{{ %s }}`, `@dump(%s)`, `@insert("a", %s)`, `@if(%s)y@end`, `@each(v in %s)y@end`, `@for(i = %s; i < 2; i++)y@end`, `@breakIf(%s)`,
			`@component("c", {k: %s})`, `{{ y = %s }}`} {
			add("malformed_arguments", fmt.Sprintf(frame, arg), false)
		}
	}
	// chains of component files that use component files: loading returns (whatever it makes of them)
	for _, n := range []int{3, 12, 41} {
		t := newTree()
		for k := 0; k < n; k++ {
			t.files[fmt.Sprintf("tpl/c%02d.tw", k)] = fmt.Sprintf(`(%d:@slot|@component("c%02d")@slot x@end@end@component("c%02d")@slot y@end@end)`, k, k+1, k+1)
		}
		t.files[fmt.Sprintf("tpl/c%02d.tw", n)] = "[leaf:@slot]"
		t.files["tpl/page.tw"] = `@component("c00")@slot p@end@end`
		c := histCase("component_chains", t, []string{opNew("tpl", ".tw", "", false), opStr("page", nil)}, fmt.Sprintf("NewTemplate over a chain of %d component files, each using the next twice", n))
		c.Timeout = 20 * time.Second
		c.Oracle = func(c *Case, impl string) string {
			for _, r := range results(impl) {
				if !(strings.HasPrefix(r, "NEWOK") || strings.HasPrefix(r, "NEWERR ") || strings.HasPrefix(r, "OK") || strings.HasPrefix(r, "ERR ") || strings.HasPrefix(r, "OSERR ") || r == "NOTPL") {
					return "loading and rendering must return a result or an error: " + clip(r, 200)
				}
			}
			return ""
		}
		cs = append(cs, c)
	}
	// very short files (none, one, two bytes; a byte order mark, whole or cut) in every role: loading and rendering return
	for _, content := range []string{"", "a", "ab", "\n", "{", "@", "{{", "}}", "\xef", "\xef\xbb", "\xef\xbb\xbf", "\xef\xbb\xbfx", "\xc3", "é", "\\", "\r"} {
		returns := func(c *Case, impl string) string {
			for _, r := range results(impl) {
				if !(strings.HasPrefix(r, "NEWOK") || strings.HasPrefix(r, "NEWERR ") || strings.HasPrefix(r, "OK") || strings.HasPrefix(r, "ERR ") || strings.HasPrefix(r, "OSERR ") || r == "NOTPL") {
					return "loading and rendering must return a result or an error: " + clip(r, 200)
				}
			}
			return ""
		}
		for role := 0; role < 4; role++ {
			t := newTree()
			var ops []string
			switch role {
			case 0:
				t.files["tpl/p.tw"] = content
				ops = []string{opNew("tpl", ".tw", "", false), opStr("p", nil)}
			case 1:
				t.files["tpl/components/c.tw"] = content
				t.files["tpl/p.tw"] = `<@component("~c")>`
				ops = []string{opNew("tpl", ".tw", "", false), opStr("p", nil)}
			case 2:
				t.files["tpl/layouts/l.tw"] = content
				t.files["tpl/p.tw"] = `@use("~l")x`
				ops = []string{opNew("tpl", ".tw", "", false), opStr("p", nil)}
			default:
				t.files["f/x.tw"] = content
				ops = []string{opEvf("f/x.tw", nil)}
			}
			c := histCase("short_files", t, ops, fmt.Sprintf("a file of %d bytes %q in role %d", len(content), content, role))
			c.Oracle = returns
			cs = append(cs, c)
		}
	}
	// numbers cut off inside an exponent or a fraction, at the end of the input and inside code
	for _, num := range []string{"1e", "1e+", "1e-", "2.5E", "2.5E-", "3e-", "1e6", "2.5E-3", "1.", "1.e", "1e1e", ".5", "1..2", "0x", "0x1F", "1_000", "1e+x", "9e999"} {
		for _, frame := range []string{"{{ %s", "{{ %s }}", "@if(n > %s", "@if(n > %s)y@end", "{{ [%s", "{{ x.f(%s", "@dump(%s"} {
			add("cut_numbers", fmt.Sprintf(frame, num), false)
		}
	}
	lexemes := []string{"@if(", "@if(true)", "@elseif(", "@elseif(true)", "@else", "@end", "@each(", "@each(v in a3)", "@for(", "@for(i = 0; i < 2; i++)",
		"@break", "@continue", "@breakIf(", "@breakIf(true)", "@continueIf(false)", "@dump(", "@dump(1)", "@use(", "@use(\"x\")", "@reserve(\"r\")", "@insert(", "@insert(\"r\")", "@insert(\"r\", 1)",
		"@component(", "@component(\"c\")", "@component(\"c\", {a: 1})", "@slot", "@slot(\"s\")", "{{", "}}", "{{ ", " }}", "{{--", "--}}", "{", "}", "(", ")", "[", "]", ",", ":", ";", "?", ".", "=", "==", "+", "-", "++", "!",
		"1", "2.5", "x", "i1", "a3", "o1", "\"s\"", "\"", "'", "true", "nil", "in", "text", " ", "\n", "$", "\\", "@"}
	maxExh := g.scale(2, 3)
	for n := 1; n <= maxExh; n++ {
		sigmaStrings(lexemes, n, func(s string) { add("lexeme_exhaustive", s, false) })
	}
	for i := 0; i < g.scale(10000, 300000); i++ {
		add("lexeme_random", g.sigmaRandom(lexemes, g.scale(8, 16)), false)
	}
	// prefixes, deletions, duplications, swaps of valid templates
	for i := 0; i < g.scale(600, 8000); i++ {
		sc := stdScope()
		parts, openAt := g.templateParts(sc, 3)
		full := strings.Join(parts, "")
		add("valid_template", full, false)
		// prefixes at part boundaries and at random byte offsets
		off := 0
		for k := 0; k < len(parts); k++ {
			off += len(parts[k])
			if off < len(full) {
				add("prefix", full[:off], openAt(off))
			}
		}
		for k := 0; k < 4; k++ {
			cut := 1 + g.n(len(full))
			if cut < len(full) {
				// byte cuts may fall inside a lexeme; then only "returns" is required unless inside a construct
				add("prefix_bytes", full[:cut], openAt(cut))
			}
		}
		if len(parts) > 1 {
			k := g.n(len(parts))
			del := append(append([]string{}, parts[:k]...), parts[k+1:]...)
			add("part_deleted", strings.Join(del, ""), false)
			dup := append(append(append([]string{}, parts[:k+1]...), parts[k]), parts[k+1:]...)
			add("part_duplicated", strings.Join(dup, ""), false)
			if k+1 < len(parts) {
				sw := append([]string{}, parts...)
				sw[k], sw[k+1] = sw[k+1], sw[k]
				add("parts_swapped", strings.Join(sw, ""), false)
			}
		}
		// an illegal character inside code
		if i := strings.Index(full, "{{ "); i >= 0 && !strings.Contains(full, "{{--") {
			add("illegal_char", full[:i+3]+g.pick([]string{"$", "#", "`", "~", "^", "&", "|"})+full[i+3:], true)
		}
	}
	for i := 0; i < g.scale(4000, 100000); i++ {
		n := 1 + g.n(12)
		bs := make([]byte, n)
		alpha := "@{}()-\\\"' \nxif=+.1[]:,;$"
		for k := range bs {
			if g.chance(1, 8) {
				bs[k] = byte(g.n(256))
			} else {
				bs[k] = alpha[g.n(len(alpha))]
			}
		}
		add("byte_soup", string(bs), false)
	}
	sort.SliceStable(cs, func(i, j int) bool { return false })
	return cs
}
