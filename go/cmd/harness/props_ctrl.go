package main

// Families for C02 (@if chains, truthiness), C03 (loops) and C04 (scoping) built on the mini
// language of mini.go: the reference interpreter gives the expected rendering.

import (
	"fmt"
	"strconv"
	"strings"
)

func mi(i int64) MV    { return MV{T: "int", I: i} }
func ms(s string) MV   { return MV{T: "str", S: s} }
func mb(b bool) MV     { return MV{T: "bool", B: b} }
func mf(s string) MV   { return MV{T: "float", S: s} }
func marr(xs ...MV) MV { return MV{T: "arr", A: xs} }

var mnil = MV{T: "nil"}

var falsyVals = []MV{mb(false), mnil, mi(0), mf("0.0"), ms("")}
var truthyVals = []MV{mb(true), mi(1), mi(-1), mf("0.5"), mf("0.0000000001"), mf("0.000000000000000001"), ms("a"), ms("0"), ms("false"), ms(" "), ms("   "), ms("nil"), ms("0.0"), marr(), marr(mi(0)), {T: "obj"}, mi(9223372036854775807)}

func lit(v MV) MX     { return MX{K: "lit", V: v} }
func rd(n string) MX  { return MX{K: "var", N: n} }
func failX() MX       { return MX{K: "fail"} }
func txt(s string) *MS { return &MS{K: "text", S: s} }

var ctrlData = map[string]MV{
	"dt": mb(true), "df": mb(false), "dz": mi(0), "dn": mnil, "de": ms(""), "ds": ms("s"), "d5": mi(5),
	"da": marr(mi(1), mi(2), mi(3)), "dea": marr(), "dsa": marr(ms("p"), ms("q")),
	"dtf": mf("0.000000000001"), "dnf": mf("-0.00000000000000000001"),
	// strings of white space only are not empty: truthy
	"dsp": ms(" "), "dnl": ms("\n"), "dtab": ms("\t \r\n"), "dnb": ms("\u00a0"), "dzw": ms("\u200b"), "dz0": ms("\x00"),
}

// a condition with the given truth value, drawn from literals and data variables
func (g *Gen) condOf(truth bool) MX {
	if truth {
		if g.chance(1, 4) {
			return rd(g.pick([]string{"dt", "ds", "d5", "da", "dea", "dsp", "dnl", "dtab", "dnb", "dzw", "dz0"}))
		}
		return lit(truthyVals[g.n(len(truthyVals))])
	}
	if g.chance(1, 4) {
		return rd(g.pick([]string{"df", "dz", "dn", "de"}))
	}
	return lit(falsyVals[g.n(len(falsyVals))])
}

var markerN int

func marker() *MS {
	markerN++
	return txt(fmt.Sprintf("[%d]", markerN%97))
}

// ifChain builds an @if with the given truth vector (0 falsy, 1 truthy, 2 failing)
func (g *Gen) ifChain(vec []int, hasElse bool, depth int, inLoop bool) *MS {
	s := &MS{K: "if", HasEl: hasElse}
	for _, t := range vec {
		var c MX
		switch t {
		case 0:
			c = g.condOf(false)
		case 1:
			c = g.condOf(true)
		default:
			c = failX()
		}
		s.Conds = append(s.Conds, c)
		s.Bods = append(s.Bods, g.ctrlBody(depth-1, inLoop))
	}
	if hasElse {
		s.Else = g.ctrlBody(depth-1, inLoop)
	}
	return s
}

func (g *Gen) ctrlBody(depth int, inLoop bool) []*MS {
	n := 1 + g.n(2)
	if g.chance(1, 8) {
		n = 0 // empty body
	}
	var out []*MS
	for i := 0; i < n; i++ {
		if depth > 0 && g.chance(1, 3) {
			k := 1 + g.n(3)
			vec := make([]int, k)
			for j := range vec {
				vec[j] = g.n(2)
			}
			out = append(out, g.ifChain(vec, g.chance(1, 2), depth, inLoop))
		} else {
			out = append(out, marker())
		}
	}
	return out
}

func casesC02(g *Gen) []*Case {
	var cs []*Case
	add := func(fam string, prog []*MS) {
		cs = append(cs, miniCase(fam, prog, ctrlData))
	}
	// all shapes: 0..3 @elseif, with / without @else, all vectors over {falsy, truthy, failing}
	for k := 1; k <= 4; k++ {
		total := 1
		for i := 0; i < k; i++ {
			total *= 3
		}
		for code := 0; code < total; code++ {
			vec := make([]int, k)
			c := code
			nfail := 0
			for i := range vec {
				vec[i] = c % 3
				if vec[i] == 2 {
					nfail++
				}
				c /= 3
			}
			if nfail > 1 {
				continue
			}
			for _, hasElse := range []bool{false, true} {
				reps := g.scale(2, 6)
				for r := 0; r < reps; r++ {
					prog := []*MS{txt("<"), g.ifChain(vec, hasElse, 1+g.n(3), false), txt(">")}
					add("if_shapes", prog)
				}
			}
		}
	}
	// every condition value, in every truthiness site
	for _, v := range append(append([]MV{}, falsyVals...), truthyVals...) {
		for _, x := range []MX{lit(v)} {
			add("truthy_if", []*MS{txt("a"), {K: "if", Conds: []MX{x}, Bods: [][]*MS{{txt("T")}}, HasEl: true, Else: []*MS{txt("F")}}, txt("z")})
			add("truthy_elseif", []*MS{{K: "if", Conds: []MX{lit(mb(false)), x}, Bods: [][]*MS{{txt("A")}, {txt("T")}}, HasEl: true, Else: []*MS{txt("F")}}})
			add("truthy_breakIf", []*MS{{K: "each", N: "q", X: rd("da"), Body: []*MS{{K: "print", X: rd("q")}, {K: "breakIf", X: x}, txt(",")}}})
			add("truthy_continueIf", []*MS{{K: "each", N: "q", X: rd("da"), Body: []*MS{{K: "print", X: rd("q")}, {K: "continueIf", X: x}, txt(",")}}})
			// ternary
			src := "{{ " + x.src() + " ? \"T\" : \"F\" }}"
			want := "F"
			if v.truthy() {
				want = "T"
			}
			c := evalCase("truthy_ternary", src, nil)
			c.Oracle = expectOut(want)
			cs = append(cs, c)
		}
	}
	// a condition is evaluated every time it is reached, also when it holds no variable: a custom function may
	// answer differently each time
	{
		ops := []string{opReg("str", "cycle", 4),
			opEvs(`@each(x in [1, 2, 3, 4])@if("row".cycle() == "odd")o@else e@end@end`, nil),
			opEvs(`@for(i = 0; i < 4; i++)@if(false)n@elseif("r".cycle() == "even")E@else O@end@end`, nil),
			opEvs(`@each(x in [1, 2, 3, 4, 5]){{ x }}@breakIf("r".cycle() == "even")@end`, nil),
			opEvs(`@each(x in [1, 2, 3, 4]){{ "r".cycle() == "odd" ? "a" : "b" }}@continueIf("r".cycle() == "even")!@end`, nil),
			opEvs(`@each(x in [1, 2, 3])@component("c")@end`, nil)}
		t := newTree()
		c := histCase("condition_evaluated_each_time", t, ops, "Register(str cycle: odd, even, odd, …); conditions without variables inside loops")
		c.NoModel = true
		c.Oracle = expectResults(map[int]func(string) string{1: wantOK("o eo e"), 2: wantOK(" OE OE"), 3: wantOK("12"), 4: wantOK("aaaa")})
		cs = append(cs, c)
	}
	// long chains that test one variable against literals: still the first truthy branch
	{
		escLit := func(x string) string {
			r := strings.NewReplacer("&", "&amp;", "<", "&lt;", ">", "&gt;")
			return r.Replace(x)
		}
		lits := []string{"a", "<i>", "b&c", "x>y", "&lt;i&gt;", "plain", "it's", "q", "<i>", "z"}
		for n := 3; n <= 9; n++ {
			for _, withElse := range []bool{false, true} {
				var sb strings.Builder
				for k := 0; k < n; k++ {
					if k == 0 {
						sb.WriteString("@if(tag == " + quoteLit(lits[k], '"') + ")B0")
					} else {
						sb.WriteString("@elseif(tag == " + quoteLit(lits[k], '"') + ")B" + strconv.Itoa(k))
					}
				}
				if withElse {
					sb.WriteString("@else E")
				}
				sb.WriteString("@end")
				vals := append([]string{"nomatch", ""}, lits[:n]...)
				for _, l := range lits[:n] {
					vals = append(vals, escLit(l))
				}
				for _, v := range vals {
					want := ""
					if withElse {
						want = " E"
					}
					for k := 0; k < n; k++ {
						if v == escLit(lits[k]) {
							want = "B" + strconv.Itoa(k)
							break
						}
					}
					c := evalCase("long_chains", sb.String(), gvMap("tag", gvStr(v)))
					c.Oracle = expectOut(want)
					cs = append(cs, c)
				}
				// the same with integers, and a chain whose conditions differ in shape
				var si strings.Builder
				for k := 0; k < n; k++ {
					kw := "@elseif"
					if k == 0 {
						kw = "@if"
					}
					si.WriteString(fmt.Sprintf("%s(num == %d)N%d", kw, k*k-3, k))
				}
				if withElse {
					si.WriteString("@else E")
				}
				si.WriteString("@end")
				for v := -4; v <= 64; v += 1 {
					want := ""
					if withElse {
						want = " E"
					}
					for k := 0; k < n; k++ {
						if v == k*k-3 {
							want = "N" + strconv.Itoa(k)
							break
						}
					}
					if want != "" && want != " E" || v%7 == 0 {
						c := evalCase("long_chains", si.String(), gvMap("num", gvInt(int64(v))))
						c.Oracle = expectOut(want)
						cs = append(cs, c)
					}
				}
			}
		}
	}
	// tiny and negative non-zero floats from the data are truthy, in every truthiness site
	for _, n := range []string{"dtf", "dnf"} {
		x := rd(n)
		add("truthy_tiny_float", []*MS{txt("a"), {K: "if", Conds: []MX{x}, Bods: [][]*MS{{txt("T")}}, HasEl: true, Else: []*MS{txt("F")}}, txt("z")})
		add("truthy_tiny_float", []*MS{{K: "if", Conds: []MX{lit(mb(false)), x}, Bods: [][]*MS{{txt("A")}, {txt("T")}}, HasEl: true, Else: []*MS{txt("F")}}})
		add("truthy_tiny_float", []*MS{{K: "each", N: "q", X: rd("da"), Body: []*MS{{K: "print", X: rd("q")}, {K: "breakIf", X: x}, txt(",")}}})
		add("truthy_tiny_float", []*MS{{K: "each", N: "q", X: rd("da"), Body: []*MS{{K: "print", X: rd("q")}, {K: "continueIf", X: x}, txt(",")}}})
		c := evalCase("truthy_tiny_float", "{{ "+n+" ? \"T\" : \"F\" }}", miniData(ctrlData))
		c.Oracle = expectOut("T")
		cs = append(cs, c)
	}
	// white space between a directive keyword and its parenthesis does not change the directive
	for _, sp := range []string{" ", "  ", "\t", "\n", " \n "} {
		progs := map[string]string{
			"@if" + sp + "(false)a@elseif" + sp + "(true)b@else c@end":                                  "b",
			"@if" + sp + "(false)a@elseif" + sp + "(false)b@else" + " c@end":                             " c",
			"@each" + sp + "(v in [1, 2, 3]){{ v }}@breakIf" + sp + "(v == 2)@end":                         "12",
			"@each" + sp + "(v in [1, 2, 3])@continueIf" + sp + "(v == 2){{ v }}@end":                      "13",
			"@for" + sp + "(i = 0; i < 3; i++){{ i }}@end":                                               "012",
			"@if(false)a@elseif" + sp + "(1 / 0)b@end":                                                   "",
		}
		for src, want := range progs {
			c := evalCase("directive_spacing", src, nil)
			if src == "@if(false)a@elseif"+sp+"(1 / 0)b@end" {
				c.Oracle = func(c *Case, impl string) string {
					if strings.HasPrefix(impl, "ERR ") {
						return ""
					}
					return "the @elseif condition fails, the render must fail: " + describe(impl)
				}
			} else {
				c.Oracle = expectOut(want)
			}
			cs = append(cs, c)
		}
	}
	// text that directly follows @else / @end is unaffected, whatever letter it starts with
	for _, t := range []string{"i", "ix", "invalid", "I", "If", "in", "e", "end", "(x)", "f", "if ", "1",
		" if you have not paid yet, please do.", " if (n) is not one", " if", "  if (x)", "\nif (x) y", " IF x", "If (x)", " elseif", " else", "s if", ": if (a) b", " i f", "-if(x)",
		" (none)", "  (x)", "\t(x)", " ()", " ( a )", " (see below)", "\t (x) y", " (", "  ((x))"} {
		if strings.HasPrefix(t, "if") {
			continue // "@else" + "if…" is the keyword @elseif
		}
		if strings.Contains(t, "(") {
			// white space and a parenthesis after a branch's directive are text of the branch, for every branch and after @end
			for _, tv := range []bool{true, false} {
				cnd, want := "true", "Comments"+t+"|"+t
				if !tv {
					cnd, want = "false", "Comments"+t+"|"+t
				}
				c := evalCase("branch_text_in_parentheses", "Comments@if("+cnd+")"+t+"@else"+t+"@end|"+t, nil)
				c.Oracle = expectOut(want)
				cs = append(cs, c)
				c = evalCase("branch_text_in_parentheses", "@if(false)a@elseif("+cnd+")"+t+"@else"+t+"!@end"+t, nil)
				if tv {
					c.Oracle = expectOut(t + t)
				} else {
					c.Oracle = expectOut(t + "!" + t)
				}
				cs = append(cs, c)
			}
		}
		for _, tv := range []bool{true, false} {
			want := "A" + "|" + t
			if !tv {
				want = t + "|" + t
			}
			cnd := "true"
			if !tv {
				cnd = "false"
			}
			c := evalCase("else_text_glue", "@if("+cnd+")A@else"+t+"@end|"+t, nil)
			c.Oracle = expectOut(want)
			cs = append(cs, c)
		}
	}
	// data-supplied condition values of every kind
	for name, v := range ctrlData {
		want := "F"
		if v.truthy() {
			want = "T"
		}
		gd := gvMap()
		for _, k := range sortedKeys(ctrlData) {
			gd.Keys = append(gd.Keys, k)
			gd.Elems = append(gd.Elems, mvToGV(ctrlData[k]))
		}
		c := evalCase("truthy_data", "@if("+name+")T@else"+"F@end", gd)
		c.Oracle = expectOut(want)
		cs = append(cs, c)
		// the same value at every other truthiness site
		brk, cnt := "1,2,3,", "1,2,3,"
		if v.truthy() {
			brk, cnt = "1", "123"
		}
		for src, w := range map[string]string{
			"{{ " + name + " ? \"T\" : \"F\" }}":                            want,
			"@if(false)A@elseif(" + name + ")T@else" + "F@end":                want,
			"@each(q in da){{ q }}@breakIf(" + name + "),@end":                 brk,
			"@each(q in da){{ q }}@continueIf(" + name + "),@end":              cnt,
			"@for(i = 1; i < 4; i++){{ i }}@breakIf(" + name + "),@end":        brk,
			"@if(" + name + ")@if(" + name + ")T@else" + "F@end@else" + "F@end": want,
		} {
			c := evalCase("truthy_data", src, gd)
			c.Oracle = expectOut(w)
			cs = append(cs, c)
		}
	}
	// random nesting, inside loops too
	for i := 0; i < g.scale(2500, 60000); i++ {
		var prog []*MS
		n := 1 + g.n(3)
		for j := 0; j < n; j++ {
			k := 1 + g.n(4)
			vec := make([]int, k)
			for q := range vec {
				vec[q] = g.n(2)
				if g.chance(1, 12) {
					vec[q] = 2
				}
			}
			chain := g.ifChain(vec, g.chance(1, 2), 3, false)
			if g.chance(1, 4) {
				prog = append(prog, &MS{K: "each", N: "q", X: rd("da"), Body: []*MS{chain, marker()}})
			} else if g.chance(1, 6) {
				prog = append(prog, &MS{K: "for", N: "w", From: 0, To: 2, Up: true, Body: []*MS{chain}})
			} else {
				prog = append(prog, marker(), chain)
			}
		}
		add("if_random", prog)
	}
	return cs
}

// ---------------------------------------------------------------------------------------------
// C03

func (g *Gen) ctrlStmt(inLoop bool) *MS {
	switch g.n(6) {
	case 0:
		if inLoop {
			return &MS{K: "break"}
		}
	case 1:
		if inLoop {
			return &MS{K: "continue"}
		}
	case 2:
		if inLoop {
			return &MS{K: "breakIf", X: g.condOf(g.chance(1, 2))}
		}
	case 3:
		if inLoop {
			return &MS{K: "continueIf", X: g.condOf(g.chance(1, 2))}
		}
	}
	return marker()
}

// wrap a statement under n nested @if blocks that are entered
func wrapIf(s *MS, n int, g *Gen) *MS {
	for i := 0; i < n; i++ {
		switch g.n(3) {
		case 0:
			s = &MS{K: "if", Conds: []MX{g.condOf(true)}, Bods: [][]*MS{{txt("("), s, txt(")")}}}
		case 1:
			s = &MS{K: "if", Conds: []MX{g.condOf(false), g.condOf(true)}, Bods: [][]*MS{{txt("no")}, {s}}}
		default:
			s = &MS{K: "if", Conds: []MX{g.condOf(false)}, Bods: [][]*MS{{txt("no")}}, HasEl: true, Else: []*MS{s, txt("e")}}
		}
	}
	return s
}

func loopMeta() []*MS {
	return []*MS{{K: "print", X: MX{K: "loop", N: "index"}}, txt(":"), {K: "print", X: MX{K: "loop", N: "iter"}}, txt(":"),
		{K: "print", X: MX{K: "loop", N: "first"}}, {K: "print", X: MX{K: "loop", N: "last"}}, txt(" ")}
}

func (g *Gen) loopBody(depth int, varName string) []*MS {
	var out []*MS
	n := 2 + g.n(3)
	for i := 0; i < n; i++ {
		switch g.n(7) {
		case 0:
			out = append(out, &MS{K: "print", X: rd(varName)})
		case 1:
			out = append(out, loopMeta()...)
		case 2:
			out = append(out, wrapIf(g.ctrlStmt(true), g.n(3), g))
		case 3:
			if depth > 0 {
				out = append(out, g.randLoop(depth-1))
				// the outer loop object is visible again after the inner loop
				out = append(out, &MS{K: "print", X: MX{K: "loop", N: "index"}})
			} else {
				out = append(out, marker())
			}
		default:
			out = append(out, marker())
		}
	}
	return out
}

var loopVarN int

func (g *Gen) randLoop(depth int) *MS {
	loopVarN++
	v := fmt.Sprintf("e%d", loopVarN%7)
	if g.chance(2, 3) {
		var arr MX
		switch g.n(5) {
		case 0:
			arr = rd("da")
		case 1:
			arr = rd("dea")
		case 2:
			arr = rd("dsa")
		default:
			n := g.n(5)
			var xs []MV
			kind := g.n(3)
			for i := 0; i < n; i++ {
				switch kind {
				case 0:
					xs = append(xs, mi(int64(i*3-2)))
				case 1:
					xs = append(xs, ms(string(rune('a'+i))))
				default:
					xs = append(xs, mb(i%2 == 0))
				}
			}
			arr = lit(marr(xs...))
		}
		s := &MS{K: "each", N: v, X: arr, Body: g.loopBody(depth, v)}
		if g.chance(1, 2) {
			s.HasEl = true
			// inside @else, control directives act on the loop around this loop
			s.Else = []*MS{txt("empty"), wrapIf(g.ctrlStmt(depth < 2), g.n(2), g)}
		}
		return s
	}
	from, to := int64(g.n(7)-3), int64(g.n(7)-3)
	s := &MS{K: "for", N: v, From: from, To: to, Up: g.chance(1, 2), Body: g.loopBody(depth, v)}
	if g.chance(1, 3) {
		s.Step = int64(1 + g.n(3))
	}
	if g.chance(1, 3) {
		s.HasEl = true
		s.Else = []*MS{txt("none")}
	}
	return s
}

func casesC03(g *Gen) []*Case {
	var cs []*Case
	add := func(fam string, prog []*MS) { cs = append(cs, miniCase(fam, prog, ctrlData)) }
	// the @for condition is evaluated anew before every pass: the body may change what it reads
	for src, want := range map[string]string{
		"{{ n = 5 }}@for(i = 0; i < n; i++){{ i }}{{ n = n - 1 }}@end|{{ n }}":                                  "012|5",
		"{{ n = 1 }}@for(i = 0; i < n; i++){{ i }}{{ n = n + (n < 4 ? 1 : 0) }}@end":                            "0123",
		"{{ todo = [7, 8, 9] }}@for(i = 0; i < todo.len(); i++)[{{ todo[0] }}]{{ todo = todo.slice(1) }}@end":     "[7][8]",
		"{{ stop = false }}@for(i = 0; !stop; i++){{ i }}{{ stop = i == 2 }}@end":                                "012",
		"{{ lim = 3 }}@for(i = 0; i < lim; i++)@for(j = 0; j < lim; j++){{ j }}@end;{{ lim = lim - 1 }}@end":      "012;01;",
		"@for(i = 0; i < xs.len(); i++){{ xs[i] }}@end":                                                        "123",
	} {
		c := evalCase("for_condition_reevaluated", src, gvMap("xs", gvList(gvInt(1), gvInt(2), gvInt(3))))
		c.Oracle = expectOut(want)
		cs = append(cs, c)
	}
	// the counter of a @for started from a variable, from loop metadata or from an element is its own value:
	// stepping it changes nothing else
	for src, want := range map[string]string{
		"@each(x in [5, 6])@for(j = loop.index; j < 3; j++){{ j }}@end|{{ loop.index }}{{ loop.iter }};@end": "012|01;12|12;",
		"{{ n = 3 }}@for(i = n; i > 0; i--){{ i }}@end{{ n }}":                                               "3213",
		"@for(i = cnt; i > 0; i--){{ i }}@end{{ cnt }}|@for(i = cnt; i < 5; i++){{ i }}@end{{ cnt }}":         "3213|343",
		"@each(v in xs)@for(k = v; k < v + 2; k++){{ k }}@end@end|@each(v in xs){{ v }}@end":                 "122334|123",
		"{{ f = 1.5 }}@for(g = f; g < 3.0; g++){{ g }}@end{{ f }}":                                           "1.52.51.5",
		"@for(i = xs[0]; i < 3; i++){{ i }}@end{{ xs }}":                                                     "121, 2, 3",
		"@for(i = o.n; i < 3; i++){{ i }}@end{{ o.n }}":                                                      "121",
		"@each(a in [1, 2])@each(b in [7, 8, 9])@for(q = loop.iter; q < 4; q++)@end{{ loop.iter }}@end;{{ loop.iter }}@end": "123;1123;2",
	} {
		c := evalCase("for_counter_is_its_own_value", src, gvMap("xs", gvList(gvInt(1), gvInt(2), gvInt(3)), "cnt", gvInt(3), "o", gvMap("n", gvInt(1))))
		c.Oracle = expectOut(want)
		cs = append(cs, c)
	}
	// a loop object remembered from an earlier pass keeps describing that pass; loops without a post statement, with @else
	for src, want := range map[string]string{
		"@each(e in [7, 8, 9])@if(loop.index > 0)[{{ prev.index }}{{ prev.last }}{{ pi }}]@end{{ prev = loop }}{{ pi = loop.iter }}@end": "[001][102]",
		"@each(e in [7, 8, 9]){{ first = loop.first ? loop : first }}{{ first.index }}{{ first.iter }};@end":                                "01;01;01;",
		"@each(e in [7, 8]){{ seen = loop }}@each(f in [1, 2, 3])@end{{ seen.iter }}{{ loop.iter }};@end":                                  "11;22;",
		"@each(e in [7, 8, 9]){{ all = loop.first ? [loop] : all.append(loop) }}@if(loop.last)@each(l in all){{ l.index }}{{ l.last }} @end@end@end": "00 10 21 ",
		"@for(i = 0; i < 3; ){{ i }}{{ i = i + 1 }}@else none@end|@for(i = 5; i < 3; )x@else none@end":                                       "012| none",
		"@for(i = 0; i < 2; ){{ i }}{{ i = i + 1 }}@end|@for(i = 0; i < 1; ){{ i = i + 1 }}y@else n@end|@for(; false; )@else z@end":          "01|y| z",
		"@for(i = 0; i < 3; i + 1){{ i }}@end|@for(i = 0; i < 6; i * 2 + 1){{ i }}@else e@end":                                              "012|013",
	} {
		c := evalCase("remembered_loop_objects_and_empty_posts", src, nil)
		c.Oracle = expectOut(want)
		cs = append(cs, c)
	}
	// loop metadata is visible in whatever a pass renders: component files, slot bodies, insert blocks of a layout loop
	{
		t := newTree()
		t.files["tpl/c.tw"] = `[{{ loop.index }}/{{ loop.iter }}{{ loop.first ? "F" : "" }}{{ loop.last ? "L" : "" }}]`
		t.files["tpl/w.tw"] = `<@slot>`
		t.files["tpl/layouts/l.tw"] = `@each(q in [1, 2])(@reserve("b"))@end@each(r in [5, 6]){@reserve("c")}@end`
		t.files["tpl/p1.tw"] = `@each(x in xs)@component("c")@end`
		t.files["tpl/p2.tw"] = `@each(a in [1, 2])@each(y in [7, 8, 9])@component("c")@end;@component("c")@end`
		t.files["tpl/p3.tw"] = `@each(x in xs)@component("w")@slot{{ loop.iter }}{{ loop.last }}@end@end@end`
		t.files["tpl/p4.tw"] = `@use("~l")@insert("b"){{ loop.index }}{{ loop.last ? "L" : "" }}@end@insert("c", loop.iter)`
		d := gvMap("xs", gvList(gvInt(1), gvInt(2), gvInt(3)))
		c := histCase("loop_metadata_in_components", t, []string{opNew("tpl", ".tw", "", false), opStr("p1", d), opStr("p2", d), opStr("p3", d), opStr("p4", d)},
			"NewTemplate; pages whose loops render components, slots and insert blocks that read loop.*")
		c.Oracle = expectResults(map[int]func(string) string{0: wantNewOK, 1: wantOK("[0/1F][1/2][2/3L]"),
			2: wantOK("[0/1F][1/2][2/3L];[0/1F][0/1F][1/2][2/3L];[1/2L]"), 3: wantOK("<10><20><31>"), 4: wantOK("(0)(1L){1}{2}")})
		cs = append(cs, c)
	}
	// a control directive in the @else body of an inner loop acts on the loop around it, and what follows
	// the inner loop in the outer body is skipped / kept accordingly
	for src, want := range map[string]string{
		"@each(a in [1, 2, 3]){{ a }}@each(q in [])x@else@if(a == 2)@continue@end@end!@end":   "1!23!",
		"@each(a in [1, 2, 3]){{ a }}@each(q in [])x@else@if(a == 2)@break@end@end!@end":      "1!2",
		"@each(a in [1, 2, 3]){{ a }}@for(j = 0; j < 0; j++)x@else@continueIf(a == 1)@end!@end": "12!3!",
		"@each(a in [1, 2]){{ a }}@each(q in [])x@else@each(r in [])y@else@break@end@end!@end":  "1",
	} {
		c := evalCase("control_in_inner_else", src, nil)
		c.Oracle = expectOut(want)
		cs = append(cs, c)
	}
	// array lengths 0..6 of each element kind, loop metadata
	for n := 0; n <= 6; n++ {
		for kind := 0; kind < 3; kind++ {
			var xs []MV
			for i := 0; i < n; i++ {
				switch kind {
				case 0:
					xs = append(xs, mi(int64(10+i)))
				case 1:
					xs = append(xs, ms(string(rune('a'+i))))
				default:
					xs = append(xs, mb(i%2 == 1))
				}
			}
			body := append([]*MS{{K: "print", X: rd("el")}, txt("@ ")}, loopMeta()...)
			add("each_meta", []*MS{txt("<"), {K: "each", N: "el", X: lit(marr(xs...)), Body: body, HasEl: true, Else: []*MS{txt("EMPTY")}}, txt(">")})
			add("each_meta", []*MS{{K: "each", N: "el", X: lit(marr(xs...)), Body: body}})
		}
	}
	// a control directive at every position of a 4 slot body, bare and under 1-2 @if
	for pos := 0; pos < 4; pos++ {
		for _, kind := range []string{"break", "continue", "breakIfT", "breakIfF", "continueIfT", "continueIfF"} {
			for wrap := 0; wrap <= 2; wrap++ {
				for rep := 0; rep < g.scale(1, 3); rep++ {
					var ctl *MS
					switch kind {
					case "break":
						ctl = &MS{K: "break"}
					case "continue":
						ctl = &MS{K: "continue"}
					case "breakIfT":
						ctl = &MS{K: "breakIf", X: g.condOf(true)}
					case "breakIfF":
						ctl = &MS{K: "breakIf", X: g.condOf(false)}
					case "continueIfT":
						ctl = &MS{K: "continueIf", X: g.condOf(true)}
					default:
						ctl = &MS{K: "continueIf", X: g.condOf(false)}
					}
					var body []*MS
					for i := 0; i < 4; i++ {
						if i == pos {
							body = append(body, wrapIf(ctl, wrap, g))
						} else {
							body = append(body, &MS{K: "print", X: rd("el")}, txt(fmt.Sprintf("s%d ", i)))
						}
					}
					add("control_positions", []*MS{{K: "each", N: "el", X: rd("da"), Body: body}, txt("|after")})
					add("control_positions_for", []*MS{{K: "for", N: "el", From: 0, To: 3, Up: true, Body: body}, txt("|after")})
					// only from the second element on
					gate := &MS{K: "if", Conds: []MX{MX{K: "loop", N: "first"}}, Bods: [][]*MS{{txt("first")}}, HasEl: true, Else: []*MS{ctl}}
					add("control_positions_gated", []*MS{{K: "each", N: "el", X: rd("da"), Body: []*MS{{K: "print", X: rd("el")}, gate, txt(";")}}})
				}
			}
		}
	}
	// for loops: bounds -3..3, both directions
	for from := int64(-3); from <= 3; from++ {
		for to := int64(-3); to <= 3; to++ {
			for _, up := range []bool{true, false} {
				for _, step := range []int64{0, 1, 2} {
					add("for_bounds", []*MS{{K: "for", N: "i", From: from, To: to, Up: up, Step: step, Body: []*MS{{K: "print", X: rd("i")}, txt(",")}, HasEl: true, Else: []*MS{txt("never")}}})
				}
			}
		}
	}
	// inside a loop's @else the directives act on the enclosing loop
	for _, ctl := range []string{"break", "continue"} {
		inner := &MS{K: "each", N: "q", X: rd("dea"), Body: []*MS{txt("x")}, HasEl: true, Else: []*MS{txt("E"), {K: ctl}, txt("unreached")}}
		add("else_acts_on_outer", []*MS{{K: "each", N: "el", X: rd("da"), Body: []*MS{{K: "print", X: rd("el")}, inner, txt("tail")}}, txt("|")})
		innerFor := &MS{K: "for", N: "q", From: 0, To: 0, Up: true, Body: []*MS{txt("x")}, HasEl: true, Else: []*MS{txt("E"), {K: ctl}, txt("unreached")}}
		add("else_acts_on_outer", []*MS{{K: "for", N: "el", From: 0, To: 3, Up: true, Body: []*MS{{K: "print", X: rd("el")}, innerFor, txt("tail")}}, txt("|")})
	}
	// iterating a non-array is an error
	for _, v := range []MV{mi(7), ms("abc"), mnil, mb(true), {T: "obj"}, mf("1.5")} {
		add("each_non_array", []*MS{txt("a"), {K: "each", N: "el", X: lit(v), Body: []*MS{txt("x")}}})
	}
	// random nested loops
	for i := 0; i < g.scale(4000, 100000); i++ {
		add("loops_random", []*MS{txt("^"), g.randLoop(2), txt("$")})
	}
	return cs
}

// ---------------------------------------------------------------------------------------------
// C04

func (g *Gen) scopeStmts(depth int, names []string, budget *int) []*MS {
	var out []*MS
	n := 1 + g.n(3)
	for i := 0; i < n && *budget > 0; i++ {
		*budget--
		name := g.pick(names)
		switch g.n(8) {
		case 0, 1:
			vals := []MV{mi(1), mi(2), ms("s"), ms("t"), mb(true), mf("1.5"), mnil, marr(mi(1))}
			out = append(out, &MS{K: "assign", N: name, X: lit(vals[g.n(len(vals))])})
		case 2, 3:
			out = append(out, txt("["), &MS{K: "print", X: rd(name)}, txt("]"))
		case 4:
			if depth > 0 {
				k := 1 + g.n(3)
				st := &MS{K: "if", HasEl: true}
				for j := 0; j < k; j++ {
					st.Conds = append(st.Conds, g.condOf(g.chance(1, 2)))
					st.Bods = append(st.Bods, g.scopeStmts(depth-1, names, budget))
				}
				st.Else = g.scopeStmts(depth-1, names, budget)
				out = append(out, st)
			}
		case 5:
			if depth > 0 {
				arrs := []MX{rd("da"), rd("dsa"), lit(marr(mi(7))), rd("dea")}
				out = append(out, &MS{K: "each", N: g.pick(names), X: arrs[g.n(len(arrs))], Body: g.scopeStmts(depth-1, names, budget)})
			}
		case 6:
			if depth > 0 {
				out = append(out, &MS{K: "for", N: g.pick(names), From: 0, To: int64(g.n(3)), Up: true, Body: g.scopeStmts(depth-1, names, budget)})
			}
		default:
			out = append(out, marker())
		}
	}
	return out
}

func casesC04(g *Gen) []*Case {
	var cs []*Case
	names := []string{"x", "y", "v"}
	// all type pairs for re-assignment, at the same level and from a nested block
	vals := []MV{mi(1), ms("s"), mb(true), mf("1.5"), mnil, marr(mi(1))}
	for _, a := range vals {
		for _, bb := range vals {
			cs = append(cs, miniCase("retype_same_block", []*MS{{K: "assign", N: "x", X: lit(a)}, {K: "assign", N: "x", X: lit(bb)}, {K: "print", X: rd("x")}}, nil))
			cs = append(cs, miniCase("retype_nested_if", []*MS{{K: "assign", N: "x", X: lit(a)}, {K: "if", Conds: []MX{lit(mb(true))}, Bods: [][]*MS{{{K: "assign", N: "x", X: lit(bb)}, {K: "print", X: rd("x")}}}}, txt("|"), {K: "print", X: rd("x")}}, nil))
			cs = append(cs, miniCase("retype_loop_var", []*MS{{K: "assign", N: "x", X: lit(a)}, {K: "each", N: "x", X: lit(marr(bb)), Body: []*MS{{K: "print", X: rd("x")}}}, txt("|"), {K: "print", X: rd("x")}}, nil))
			cs = append(cs, miniCase("retype_data", []*MS{{K: "if", Conds: []MX{lit(mb(true))}, Bods: [][]*MS{{{K: "assign", N: "x", X: lit(bb)}}}}, {K: "print", X: rd("x")}}, map[string]MV{"x": a}))
		}
	}
	// a @for without an init clause (or with a bare expression there) is a scope like every other loop
	for src, want := range map[string]string{
		"{{ n = 0 }}@for(; n < 3; n = n + 1){{ n }}@end|{{ n }}":                         "012|0",
		"{{ n = 0 }}@for(n; n < 2; n = n + 1){{ n }}{{ m = n }}@end|{{ n }}":             "01|0",
		"{{ n = 0 }}@for(; n < 2; n = n + 1)x@end{{ n = \"s\" }}{{ n }}":                "ERR cannot assign",
		"@for(; false; )x@else{{ z = 1 }}e@end{{ z }}":                                  "ERR 'z'",
		"{{ n = 0 }}@for(; n < 2; n = n + 1){{ m = n }}@end{{ m }}":                     "ERR 'm'",
		"@for(;;){{ w = 1 }}@break@end{{ w }}":                                          "ERR 'w'",
		"{{ k = 7 }}@for(;;){{ k = 8 }}{{ k }}@break@end{{ k }}":                         "87",
		"@each(v in [1])@for(; false;)@else{{ v = 5 }}@end{{ v }}@end":                   "1",
	} {
		c := evalCase("for_without_init_is_a_scope", src, nil)
		if strings.HasPrefix(want, "ERR ") {
			part := strings.TrimPrefix(want, "ERR ")
			c.Oracle = func(c *Case, impl string) string { return wantErr(part)(impl) }
		} else {
			c.Oracle = expectOut(want)
		}
		cs = append(cs, c)
	}
	// the post clause of a @for is an assignment to the counter like any other: a value of another type is refused
	for src, want := range map[string]string{
		"@for(i = 0; i < 2; \"s\")x@end":                            "ERR cannot assign",
		"@for(i = 0; i < 2; i.float())x@end":                        "ERR cannot assign",
		"@for(i = 0; i < 2; [i])x@end":                              "ERR cannot assign",
		"@for(i = 0; i < 3; i == 1 ? false : i + 1){{ i }}@end":      "ERR cannot assign",
		"@for(i = 0; i < 2; i.str())x@end":                          "ERR cannot assign",
		"@for(i = 0.5; i < 2.0; i.int())x@end":                      "ERR cannot assign",
		"@for(s = \"a\"; s.len() < 3; s + \"b\"){{ s }};@end{{ 1 }}": "a;ab;1",
		"@for(i = 0; i < 2; i + 1)@for(j = 0; j < 2; j.str())@end@end": "ERR cannot assign",
		"@for(i = 0; i < 2; nil)x@breakIf(true)@end":                 "x",
	} {
		c := evalCase("for_post_keeps_the_type", src, nil)
		if strings.HasPrefix(want, "ERR ") {
			part := strings.TrimPrefix(want, "ERR ")
			c.Oracle = func(c *Case, impl string) string { return wantErr(part)(impl) }
		} else {
			c.Oracle = expectOut(want)
		}
		cs = append(cs, c)
	}
	// very deep nesting: every level is its own scope, the innermost assignment wins inside and is gone outside
	for _, depth := range []int{3, 8, 11, 12, 13, 16, 24, 40} {
		for variant := 0; variant < 6; variant++ {
			var sb strings.Builder
			var want strings.Builder
			sb.WriteString("{{ v = 0 }}")
			// which levels assign v: all of them, one near the top, two, every fourth, ...
			assigns := func(l int) bool {
				switch variant {
				case 0:
					return true
				case 1:
					return l == 3
				case 2:
					return l == 1 || l == 5
				case 3:
					return l%4 == 0
				case 4:
					return l == depth-1
				}
				return l == 2 || l == depth/2
			}
			vals := []int{0}
			for l := 1; l <= depth; l++ {
				switch (l + variant) % 3 {
				case 0:
					sb.WriteString("@if(true)")
				case 1:
					sb.WriteString("@each(e in [1])")
				default:
					sb.WriteString("@for(z = 0; z < 1; z++)")
				}
				cur := vals[len(vals)-1]
				if assigns(l) {
					sb.WriteString(fmt.Sprintf("{{ v = %d }}", l))
					cur = l
				}
				vals = append(vals, cur)
				sb.WriteString("{{ v }},")
				want.WriteString(fmt.Sprintf("%d,", cur))
			}
			for l := depth; l >= 1; l-- {
				sb.WriteString("{{ v }};@end")
				want.WriteString(fmt.Sprintf("%d;", vals[l]))
			}
			sb.WriteString("{{ v }}")
			want.WriteString("0")
			c := evalCase("deep_scopes", sb.String(), nil)
			c.Oracle = expectOut(want.String())
			cs = append(cs, c)
		}
		// a loop variable named like a data key, and the loop object of every level
		var sb, want strings.Builder
		for l := 1; l <= depth; l++ {
			sb.WriteString(fmt.Sprintf("@each(who in [%d, %d])", l, l+100))
		}
		sb.WriteString("{{ who }}{{ loop.index }}@break")
		want.WriteString(fmt.Sprintf("%d0", depth))
		for l := depth; l >= 1; l-- {
			sb.WriteString("@end")
			if l > 1 {
				sb.WriteString("{{ who }}{{ loop.last }}@break")
				want.WriteString(fmt.Sprintf("%d0", l-1))
			}
		}
		sb.WriteString("|{{ who }}")
		want.WriteString("|-7")
		c := evalCase("deep_scopes", sb.String(), gvMap("who", gvInt(-7)))
		c.Oracle = expectOut(want.String())
		cs = append(cs, c)
	}
	// names bound by a construct vanish afterwards
	cs = append(cs, miniCase("vanish", []*MS{{K: "each", N: "x", X: lit(marr(mi(1))), Body: []*MS{txt("in")}}, {K: "print", X: rd("x")}}, nil))
	cs = append(cs, miniCase("vanish", []*MS{{K: "for", N: "x", From: 0, To: 1, Up: true, Body: []*MS{txt("in")}}, {K: "print", X: rd("x")}}, nil))
	cs = append(cs, miniCase("vanish", []*MS{{K: "if", Conds: []MX{lit(mb(true))}, Bods: [][]*MS{{{K: "assign", N: "x", X: lit(mi(1))}}}}, {K: "print", X: rd("x")}}, nil))
	cs = append(cs, miniCase("vanish", []*MS{{K: "each", N: "x", X: lit(marr(mi(1))), Body: []*MS{txt("in")}}, {K: "print", X: MX{K: "loop", N: "index"}}}, nil))
	// an assignment that follows a nested construct inside a branch / a loop body is still local to it,
	// whether or not the name is visible outside
	nested := []*MS{
		{K: "if", Conds: []MX{lit(mb(true))}, Bods: [][]*MS{{txt("n")}}},
		{K: "if", Conds: []MX{lit(mb(false))}, Bods: [][]*MS{{txt("n")}}},
		{K: "each", N: "q", X: lit(marr(mi(1))), Body: []*MS{txt("n")}},
		{K: "for", N: "q", From: 0, To: 1, Up: true, Body: []*MS{txt("n")}},
	}
	for _, nd := range nested {
		for _, pre := range []MV{mnil, mi(5)} {
			inner := []*MS{txt("("), nd, {K: "assign", N: "x", X: lit(mi(1))}, {K: "print", X: rd("x")}, txt(")")}
			var outer []*MS
			if pre.T != "nil" {
				outer = append(outer, &MS{K: "assign", N: "x", X: lit(pre)})
			}
			shapes := [][]*MS{
				{{K: "if", Conds: []MX{lit(mb(true))}, Bods: [][]*MS{inner}}},
				{{K: "if", Conds: []MX{lit(mb(false)), lit(mb(true))}, Bods: [][]*MS{{txt("a")}, inner}}},
				{{K: "if", Conds: []MX{lit(mb(false))}, Bods: [][]*MS{{txt("a")}}, HasEl: true, Else: inner}},
				{{K: "each", N: "w", X: lit(marr(mi(1), mi(2))), Body: inner}},
			}
			for _, sh := range shapes {
				prog := append(append([]*MS{}, outer...), sh...)
				prog = append(prog, txt("|"), &MS{K: "print", X: rd("x")})
				cs = append(cs, miniCase("assign_after_nested", prog, nil))
			}
		}
	}
	// data under names that begin with an underscore is data like any other
	for _, key := range []string{"_id", "_", "__v", "_x9", "a_b"} {
		d := gvMap(key, gvInt(7))
		c := evalCase("underscore_names", "{{ "+key+" }}|@if(true)@each(q in [1]){{ "+key+" + q }}@end@end", d)
		c.Oracle = expectOut("7|8")
		cs = append(cs, c)
		c2 := evalCase("underscore_names", "{{ "+key+" = \"seven\" }}", d)
		c2.Oracle = func(c *Case, impl string) string {
			if strings.HasPrefix(impl, "ERR ") {
				return ""
			}
			return "re-typing a data variable must fail: " + describe(impl)
		}
		cs = append(cs, c2)
		c3 := evalCase("underscore_names", "@each("+key+" in [\"a\"])x@end", d)
		c3.Oracle = c2.Oracle
		cs = append(cs, c3)
	}
	// blocks that arrive through the loader (insert blocks, slot bodies, component files) are scoped like
	// the construct they are rendered in
	{
		t := newTree()
		t.files["tpl/layouts/l.tw"] = `{{ y = 1 }}@if(true)@reserve("c")[{{ x }}]@end<{{ y }}>@each(q in [1])@reserve("d")@end`
		t.files["tpl/p.tw"] = `@use("~l")@insert("c"){{ x = 5 }}{{ y = 2 }}@end@insert("d"){{ z = 3 }}@end`
		t.files["tpl/leak.tw"] = `@use("~l2")@insert("c"){{ x = 5 }}@end`
		t.files["tpl/layouts/l2.tw"] = `@if(true)@reserve("c")@end{{ x }}`
		t.files["tpl/components/k.tw"] = `{{ inner = 1 }}@slot`
		t.files["tpl/comp.tw"] = `@component("~k")@slot{{ s = 2 }}@end@end[{{ s }}]`
		t.files["tpl/comp2.tw"] = `@component("~k")[{{ inner }}]`
		ops := []string{opNew("tpl", ".tw", "", false), opStr("p", nil), opStr("leak", nil), opStr("comp", nil), opStr("comp2", nil)}
		c := histCase("loader_blocks_are_scoped", t, ops, "NewTemplate; String(p); String(leak); String(comp); String(comp2)")
		mustFail := func(name string) func(string) string {
			return func(r string) string {
				if strings.HasPrefix(r, "ERR ") && strings.Contains(r, hx(name)) {
					return ""
				}
				f := strings.Fields(r)
				if len(f) >= 4 && f[0] == "ERR" && strings.Contains(unhx(f[3]), name) {
					return ""
				}
				return "the name '" + name + "' was bound inside a nested construct and must not be visible after it: " + describe(r)
			}
		}
		c.Oracle = expectResults(map[int]func(string) string{0: wantNewOK, 1: wantOK("[5]<1>"), 2: mustFail("x"), 3: mustFail("s"), 4: mustFail("inner")})
		cs = append(cs, c)
	}
	// loop is reserved
	cs = append(cs, miniCase("loop_reserved", []*MS{{K: "assign", N: "loop", X: lit(mi(1))}}, nil))
	cs = append(cs, miniCase("loop_reserved", []*MS{{K: "each", N: "loop", X: lit(marr(mi(1))), Body: []*MS{txt("x")}}}, nil))
	{
		c := evalCase("loop_reserved", "plain", gvMap("loop", gvInt(1)))
		c.Oracle = func(c *Case, impl string) string {
			if strings.HasPrefix(impl, "ERR") {
				return ""
			}
			return "'loop' was accepted as data"
		}
		cs = append(cs, c)
	}
	// random programs over a small name set with data maps pre-binding some names
	datas := []map[string]MV{nil, {"x": mi(5)}, {"y": ms("d")}, {"x": ms("dx"), "v": mi(0)}, {"x": mi(1), "y": mi(2), "v": mi(3)}}
	for i := 0; i < g.scale(6000, 150000); i++ {
		budget := 5 + g.n(6)
		prog := g.scopeStmts(3, names, &budget)
		d := map[string]MV{}
		for k, v := range ctrlData {
			d[k] = v
		}
		for k, v := range datas[g.n(len(datas))] {
			d[k] = v
		}
		cs = append(cs, miniCase("scope_random", prog, d))
	}
	return cs
}
