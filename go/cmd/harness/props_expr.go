package main

// Families for C01 (expressions).

import (
	"fmt"
	"math"
	"strconv"
	"strings"
)

// oracleSpec: the implementation must agree with the specification evaluator on the tree:
// same output, or both fail
func oracleSpec(c *Case, impl string) string {
	if strings.HasPrefix(c.spec, "NOSPEC") || c.spec == "" {
		return ""
	}
	fi := strings.Fields(impl)
	if len(fi) == 0 {
		return "no answer"
	}
	if strings.HasPrefix(c.spec, "OK") {
		if impl == c.spec {
			return ""
		}
		return fmt.Sprintf("the expression denotes %s but the implementation returned %s", describe(c.spec), describe(impl))
	}
	if fi[0] == "ERR" {
		return ""
	}
	return fmt.Sprintf("the expression has no value (type mismatch, division by zero, unknown name, …) but the implementation returned %s", describe(impl))
}

var binOps = []string{"==", "!=", "<", ">", "<=", ">=", "+", "-", "*", "/", "%"}

func exprCase(family string, e *E, sc *Scope, style, layout int, g *Gen) *Case {
	src := "{{ " + e.src(style, layout, g) + " }}"
	c := evalCase(family, src, sc.data)
	c.Spec = []string{"expr", e.term(), sc.data.Term()}
	c.Oracle = oracleSpec
	c.Tags = []string{fmt.Sprintf("style%d", style), fmt.Sprintf("layout%d", layout)}
	return c
}

func casesC01(g *Gen) []*Case {
	var cs []*Case
	sc := stdScope()
	// operand vectors per typing
	type vec struct{ a, b, c *E }
	vecs := map[string][]vec{
		"int": {
			{eInt(7), eInt(2), eInt(3)},
			{eVar("imax"), eInt(1), eVar("imin")},
			{eInt(0), eInt(5), eInt(0)},
			{eVar("i7"), eVar("im"), eVar("i1")},
		},
		"float": {
			{eFloat(7.5), eFloat(2.0), eFloat(0.25)},
			{eVar("f1"), eVar("fm"), eFloat(0)},
		},
		"str": {
			{eStr("a"), eStr("b"), eStr("a")},
			{eVar("s1"), eStr(""), eVar("s2")},
		},
	}
	styles := []int{0, 1, 2}
	// every ordered pair of binary operators, both groupings
	for _, o1 := range binOps {
		for _, o2 := range binOps {
			for _, ty := range []string{"int", "float", "str"} {
				for vi, v := range vecs[ty] {
					for _, tree := range []*E{eBin(o2, eBin(o1, v.a, v.b), v.c), eBin(o1, v.a, eBin(o2, v.b, v.c))} {
						for _, st := range styles {
							if !g.thorough() && (vi+st)%2 == 1 && ty != "int" {
								continue
							}
							cs = append(cs, exprCase("operator_pairs", tree, sc, st, (vi+st)%3, g))
						}
					}
				}
			}
		}
	}
	// every ordered triple of binary operators (left-leaning source a o1 b o2 c o3 d and all groupings sampled)
	for _, o1 := range binOps {
		for _, o2 := range binOps {
			for _, o3 := range binOps {
				if !g.thorough() && !g.chance(1, 3) {
					continue
				}
				v := vecs["int"][g.n(len(vecs["int"]))]
				d := eInt(int64(1 + g.n(4)))
				shapes := []*E{
					eBin(o3, eBin(o2, eBin(o1, v.a, v.b), v.c), d),
					eBin(o1, v.a, eBin(o2, v.b, eBin(o3, v.c, d))),
					eBin(o2, eBin(o1, v.a, v.b), eBin(o3, v.c, d)),
					eBin(o3, eBin(o1, v.a, eBin(o2, v.b, v.c)), d),
					eBin(o1, v.a, eBin(o3, eBin(o2, v.b, v.c), d)),
				}
				for si, tree := range shapes {
					if !g.thorough() && si != g.n(5) && si != 0 {
						continue
					}
					cs = append(cs, exprCase("operator_triples", tree, sc, g.n(3), g.n(3), g))
				}
			}
		}
	}
	// unary / postfix / ternary / member combined with binary operators
	atomsI := []*E{eInt(3), eVar("i7"), eVar("im")}
	for _, op := range binOps {
		for _, a := range atomsI {
			x, y := a, eInt(2)
			trees := []*E{
				eBin(op, eUn("neg", x), y), eUn("neg", eBin(op, x, y)), eBin(op, x, eUn("neg", y)),
				eBin(op, eUn("inc", x), y), eBin(op, x, eUn("dec", y)), eUn("inc", eBin(op, x, y)),
				eTern(eBin(op, x, y), eInt(1), eInt(2)), eBin(op, eTern(eVar("bt"), x, y), y), eBin(op, x, eTern(eVar("bf"), x, y)),
				eTern(eVar("bt"), eBin(op, x, y), eInt(0)), eTern(eVar("bf"), eInt(0), eBin(op, x, y)),
				eBin(op, eIdx(eVar("a3"), eInt(1)), y), eIdx(eVar("a3"), eBin(op, eInt(4), y)),
				eBin(op, eDot(eVar("o1"), "age"), y), eBin(op, eCall(eVar("s1"), "len"), y), eBin(op, x, eCall(eVar("a3"), "len")),
				eUn("neg", eIdx(eVar("a3"), eInt(0))), eUn("neg", eDot(eVar("o1"), "age")), eUn("neg", eUn("inc", x)),
				eUn("inc", eDot(eVar("o1"), "age")), eUn("dec", eIdx(eVar("a3"), eInt(2))), eUn("not", eBin(op, x, y)),
				eDot(eUn("neg", eVar("o1")), "age"), eIdx(eUn("neg", eVar("a3")), eInt(0)), eCall(eUn("neg", x), "abs"),
				eUn("neg", eCall(x, "abs")), eCall(eBin(op, x, y), "abs"),
			}
			for ti, tree := range trees {
				cs = append(cs, exprCase("mixed_shapes", tree, sc, ti%3, (ti/3)%3, g))
			}
		}
	}
	// nested ternaries
	for i := 0; i < 8; i++ {
		c1, c2 := eBool(i&1 == 1), eBool(i&2 == 2)
		a, bb, cc := eInt(1), eInt(2), eInt(3)
		trees := []*E{eTern(c1, a, eTern(c2, bb, cc)), eTern(eTern(c1, c2, c1), a, bb), eTern(c1, eTern(c2, a, bb), cc)}
		for _, tree := range trees {
			for st := 0; st < 3; st++ {
				cs = append(cs, exprCase("ternary_nesting", tree, sc, st, st, g))
			}
		}
	}
	// random typed trees
	for i := 0; i < g.scale(6000, 200000); i++ {
		ty := g.pick([]string{"int", "int", "float", "str", "bool"})
		tree := g.expr(sc, ty, g.scale(4, 6))
		cs = append(cs, exprCase("random_typed", tree, sc, g.n(3), g.n(3), g))
	}
	// random untyped trees (mostly errors: which error does not matter, that it is one does)
	for i := 0; i < g.scale(3000, 80000); i++ {
		tree := g.anyExpr(sc, 3)
		cs = append(cs, exprCase("random_untyped", tree, sc, g.n(3), g.n(3), g))
	}
	// assignment: the right-hand side is a complete expression
	for i := 0; i < g.scale(1500, 30000); i++ {
		ty := g.pick([]string{"int", "float", "str", "bool"})
		tree := g.expr(sc, ty, 3)
		src := "{{ zz = " + tree.src(g.n(3), g.n(3), g) + "; zz }}"
		if g.chance(1, 2) {
			src = "{{ zz = " + tree.src(g.n(3), g.n(3), g) + " }}{{ zz }}"
		}
		c := evalCase("assignment_rhs", src, sc.data)
		c.Spec = []string{"expr", tree.term(), sc.data.Term()}
		c.Oracle = oracleSpec
		cs = append(cs, c)
	}
	// error rows of the statement
	errSrc := []string{
		`{{ 1 + "a" }}`, `{{ 1 + 1.0 }}`, `{{ "a" * "b" }}`, `{{ true + true }}`, `{{ 1 / 0 }}`, `{{ 1 % 0 }}`, `{{ i7 / i0 }}`, `{{ i7 % i0 }}`,
		`{{ nosuch }}`, `{{ 1 + nosuch }}`, `{{ 9223372036854775808 }}`, `{{ -9223372036854775808 }}`, `{{ 99999999999999999999 + 1 }}`,
		`{{ nil + nil }}`, `{{ [1] + [2] }}`, `{{ "a" < "b" }}`, `{{ !1 }}`, `{{ -"a" }}`, `{{ "a"++ }}`, `{{ 1 == 1.0 }}`, `{{ 1.5 % 1.0 }}`,
	}
	for _, s := range errSrc {
		c := evalCase("error_rows", s, sc.data)
		c.Oracle = func(c *Case, impl string) string {
			if strings.HasPrefix(impl, "ERR ") {
				return ""
			}
			return "the statement lists this as an error, the implementation returned " + describe(impl)
		}
		cs = append(cs, c)
	}
	// wrap-around rows
	wrap := map[string]string{
		"{{ 9223372036854775807 + 1 }}":                       "-9223372036854775808",
		"{{ imin - 1 }}":                                      "9223372036854775807",
		"{{ imax * 2 }}":                                      "-2",
		"{{ imin / (0 - 1) }}":                                "-9223372036854775808",
		"{{ imin % (0 - 1) }}":                                "0",
		"{{ -imin }}":                                         "-9223372036854775808",
		"{{ imax++ }}":                                        "-9223372036854775808",
		"{{ 7 / 2 }} {{ (0 - 7) / 2 }} {{ (0 - 7) % 2 }}":     "3 -3 -1",
		"{{ 7 / 2 * 3 }} {{ 2 + 3 * 4 - 1 }} {{ 10 - 2 - 3 }}": "9 13 5",
	}
	// literal spellings: leading zeros are decimal, a float keeps its digits
	lits := map[string]string{
		"{{ 010 + 1 }}": "11", "{{ 08 }}|{{ 09 + 1 }}": "8|10", "{{ 007 * 2 }}": "14", "{{ 00 }}": "0", "{{ 0123456789 }}": "123456789",
		"{{ 010.5 + 1.0 }}": "11.5", "{{ 1.50 }}": "1.5", "{{ 0.10 + 0.20 }}": "0.30000000000000004", "{{ [010, 011][1] }}": "11",
		"{{ x = 0017 }}{{ x }}": "17", "{{ 1000000 * 1000000 }}": "1000000000000",
	}
	for s, want := range lits {
		c := evalCase("literal_spellings", s, sc.data)
		c.Oracle = expectOut(want)
		cs = append(cs, c)
	}
	// a float literal denotes the double closest to its decimal text, however many digits it has
	for _, d := range []int{1, 2, 5, 10, 15, 16, 17, 18, 20, 21, 22, 23, 24, 25, 26, 30, 40, 100, 300, 307, 308, 309, 315, 320, 323, 324, 325, 330} {
		for _, sig := range []string{"1", "49", "5", "25", "123456789", "9007199254740993", "17976931348623157", "2225073858507201", "4940656458412465"} {
			if len(sig) > d {
				continue
			}
			for _, ip := range []string{"0", "1", "123"} {
				lit := ip + "." + strings.Repeat("0", d-len(sig)) + sig
				v, err := strconv.ParseFloat(lit, 64)
				if err != nil {
					continue
				}
				c := evalCase("float_literal_digits", "{{ "+lit+".str() }}|{{ "+lit+" == "+lit+" }}|{{ ("+lit+" * 2.0).str() }}", nil)
				c.Oracle = expectOut(strconv.FormatFloat(v, 'f', -1, 64) + "|1|" + strconv.FormatFloat(v*2, 'f', -1, 64))
				cs = append(cs, c)
			}
		}
	}
	// whole floats at and beyond the integer range, negative zero
	for _, lit := range []string{"9223372036854775807.0", "9223372036854775808.0", "9223372036854777856.0", "18446744073709551616.0", "9007199254740992.0", "9007199254740993.0",
		"4611686018427387904.0", "123456789012345680000.0", "1000000000000000000000.0", "999999999999999900000.0", "100000000000000000000000.0", "0.0"} {
		v, _ := strconv.ParseFloat(lit, 64)
		c := evalCase("float_literal_digits", "{{ "+lit+".str() }}|{{ (0.0 - "+lit+").str() }}|{{ (-"+lit+").str() }}", nil)
		c.Oracle = expectOut(strconv.FormatFloat(v, 'f', -1, 64) + "|" + strconv.FormatFloat(0-v, 'f', -1, 64) + "|" + strconv.FormatFloat(-v, 'f', -1, 64))
		cs = append(cs, c)
	}
	// float comparisons with NaN and infinities from the data and from arithmetic
	_ = math.MaxInt64
	for s, want := range wrap {
		c := evalCase("wraparound_rows", s, sc.data)
		c.Oracle = expectOut(want)
		cs = append(cs, c)
	}
	return cs
}
