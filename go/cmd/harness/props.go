package main

// buildCases returns the families of one property.
func buildCases(id string, g *Gen) []*Case {
	switch id {
	case "C01":
		return casesC01(g)
	case "C02":
		return casesC02(g)
	case "C03":
		return casesC03(g)
	case "C04":
		return casesC04(g)
	case "C05":
		return casesC05(g)
	case "C06":
		return casesC06(g)
	case "C07":
		return casesC07(g)
	case "C13":
		return casesC13(g)
	case "C14":
		return casesC14(g)
	case "C15":
		return casesC15(g)
	case "C16":
		return casesC16(g)
	case "C17":
		return casesC17(g)
	case "C20":
		return casesC20(g)
	case "C18":
		return casesC18(g)
	case "C08":
		return casesC08(g)
	case "C09":
		return casesC09(g)
	case "C10":
		return casesC10(g)
	case "C11":
		return casesC11(g)
	case "C12":
		return casesC12(g)
	case "C19":
		return casesC19(g)
	}
	return nil
}
