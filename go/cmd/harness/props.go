package main

// buildCases returns the families of one property.
func buildCases(id string, g *Gen) []*Case {
	switch id {
	case "C05":
		return casesC05(g)
	case "C08":
		return casesC08(g)
	case "C19":
		return casesC19(g)
	}
	return nil
}
