package main

// Families over histories of API calls: C14 (determinism), C16 (history independence),
// C17 (Response), C20 (custom functions).

import (
	"math"
	"time"
	"fmt"
	"strconv"
	"strings"
)

// ---------------------------------------------------------------------------------------------
// C14

func allSame(from int) func(*Case, string) string {
	return func(c *Case, impl string) string {
		rs := results(impl)
		for i := from + 1; i < len(rs); i++ {
			if rs[i] != rs[from] {
				return fmt.Sprintf("repetition %d gave %s, repetition 0 gave %s", i-from, describe(rs[i]), describe(rs[from]))
			}
		}
		return ""
	}
}

func casesC14(g *Gen) []*Case {
	var cs []*Case
	reps := g.scale(20, 200)
	copies := g.scale(3, 10) // the same case is run by several worker processes
	addRepeated := func(fam string, t *Tree, pre []string, op string, note string) {
		for k := 0; k < copies; k++ {
			ops := append([]string{}, pre...)
			for i := 0; i < reps; i++ {
				ops = append(ops, op)
			}
			c := histCase(fam, t, ops, fmt.Sprintf("%s (x%d, process copy %d)", note, reps, k))
			c.Oracle = allSame(len(pre))
			c.Tags = []string{fmt.Sprintf("copy%d", k)}
			c.Timeout = 0
			cs = append(cs, c)
		}
	}
	keys := []string{"zeta", "alpha", "mid", "Beta", "k9", "k10", "a", "b", "omega", "_x"}
	for i := 0; i < g.scale(60, 1500); i++ {
		n := 4 + g.n(5)
		obj := gvMap()
		var lit []string
		for k := 0; k < n; k++ {
			key := keys[(i+k*3)%len(keys)]
			if containsStr(obj.Keys, key) {
				continue
			}
			obj.Keys = append(obj.Keys, key)
			obj.Elems = append(obj.Elems, gvInt(int64(k)))
			lit = append(lit, fmt.Sprintf("%s: %d", key, k))
		}
		data := gvMap("obj", obj, "nested", gvMap("x", obj, "list", gvList(obj, gvInt(1))))
		var src string
		switch g.n(8) {
		case 0:
			src = "{{ obj }}"
		case 1:
			src = "@dump(obj)"
		case 2:
			src = "{{ nested }}|@dump(nested)"
		case 3:
			src = "{{ {" + strings.Join(lit, ", ") + "} }}"
		case 4:
			// several failing entries in one object literal
			src = "{{ {b: nosuch1, a: nosuch2, c: 1 / 0, d: 1} }}"
		case 5:
			src = "@dump({z: 1, y: {b: 2, a: [1, {q: 1, p: 2}]}})"
		case 6:
			src = "@each(k in [obj, nested])[{{ k }}]@end"
		default:
			src = "{{ [obj, {m: 1, l: 2}].join(\";\") }}"
		}
		addRepeated("object_printing", newTree(), nil, opEvs(src, data), src)
	}
	// a name that is not bound, next to several bound names that resemble it (one letter more, one less, another
	// case): the error is the same every time, whatever the evaluator looks up to word its message
	{
		data := gvMap("user", gvStr("u"), "users", gvList(gvStr("a")), "usr", gvInt(1), "User", gvStr("U"), "userr_", gvInt(2), "use", gvInt(3),
			"title", gvStr("t"), "titles", gvInt(4), "titel", gvInt(5), "item", gvInt(6), "items", gvInt(7), "itm", gvInt(8))
		for _, src := range []string{"{{ userr }}", "{{ usre }}", "{{ user.nosuch() }}", "{{ titl }}", "@if(itemz)a@end", "{{ iten + 1 }}", "@each(x in userss){{ x }}@end",
			"{{ {a: userr, b: titl} }}", "{{ usr.nme }}", "{{ users.lenn() }}"} {
			addRepeated("misspelt_name_among_similar_names", newTree(), nil, opEvs(src, data), src)
		}
		obj := gvMap("name", gvStr("n"), "names", gvInt(1), "nam", gvInt(2), "Name", gvInt(3), "namee", gvInt(4), "mane", gvInt(5))
		for _, src := range []string{"{{ obj.nme }}", "{{ obj.naem }}", "{{ obj[\"nme\"] }}", "{{ obj.name.uper() }}"} {
			addRepeated("misspelt_name_among_similar_names", newTree(), nil, opEvs(src, gvMap("obj", obj, "objs", gvInt(1), "ob", gvInt(2))), src)
		}
	}
	// keys that differ only in letter case (or are prefixes of each other) print in one fixed order
	{
		obj := gvMap("id", gvInt(1), "ID", gvInt(2), "Id", gvInt(3), "iD", gvInt(4), "name", gvStr("n"), "Name", gvStr("N"), "NAME", gvStr("NN"), "nam", gvInt(0), "namee", gvInt(9))
		for _, src := range []string{"{{ obj }}", "@dump(obj)", "{{ {id: 1, ID: 2, Id: 3, iD: 4, name: 5, Name: 6, NAME: 7} }}", "@each(o in [obj, obj])[{{ o }}]@end"} {
			addRepeated("case_variant_keys", newTree(), nil, opEvs(src, gvMap("obj", obj)), src)
		}
	}
	// big containers: more keys / items than any bound an implementation might put on what it sorts or prints
	for _, n := range []int{255, 256, 257, 1000, 1001, 1025, 1500} {
		obj := gvMap()
		var items []*GV
		for k := 0; k < n; k++ {
			obj.Keys = append(obj.Keys, fmt.Sprintf("k%04d", (k*7919)%n))
			obj.Elems = append(obj.Elems, gvInt(int64(k)))
			items = append(items, gvInt(int64(k)))
		}
		data := gvMap("obj", obj, "list", gvList(items...), "nested", gvMap("inner", obj))
		for _, src := range []string{"@dump(obj)", "{{ obj }}", "@dump(nested)", "@dump(list)", "{{ list.len() }}{{ nested }}"} {
			for k := 0; k < 2; k++ {
				ops := []string{opEvs(src, data), opEvs(src, data), opEvs(src, data)}
				c := histCase("big_containers", newTree(), ops, fmt.Sprintf("%s with %d keys / items (x3, process copy %d)", src, n, k))
				c.Oracle = allSame(0)
				c.Timeout = 60 * time.Second
				cs = append(cs, c)
			}
		}
	}
	// big trees with several faulty files far apart: loading reports the same fault every time
	for _, n := range []int{64, 127, 128, 130, 200, 300} {
		t := newTree()
		for k := 0; k < n; k++ {
			src := fmt.Sprintf("page %d {{ 1 + %d }}", k, k)
			switch {
			case k == n/8+1:
				src = "a\n{{ 1 + }}"
			case k == n/2+3:
				src = "a\n\n{{ ) }}"
			case k == n-4:
				src = "@if(true)open"
			case k == n/4*3:
				src = "@component(\"nosuchcomp\")"
			}
			t.files[fmt.Sprintf("tpl/s%d/p%03d.tw", k%5, k)] = src
		}
		for k := 0; k < 2; k++ {
			var ops []string
			for r := 0; r < 12; r++ {
				ops = append(ops, opNew("tpl", ".tw", "", false))
			}
			c := histCase("big_tree_several_faults", t, ops, fmt.Sprintf("NewTemplate x12 over %d files, four of them faulty (process copy %d)", n, k))
			c.Oracle = allSame(0)
			c.Timeout = 120 * time.Second
			cs = append(cs, c)
		}
	}
	// keys that are equal up to leading zeros, digit runs, separators: still one fixed order
	{
		obj := gvMap("a1", gvInt(1), "a01", gvInt(2), "a001", gvInt(3), "a10", gvInt(4), "a2", gvInt(5), "x0", gvInt(6), "x00", gvInt(7), "v1_0", gvInt(8), "v01_0", gvInt(9), "a", gvInt(0))
		for _, src := range []string{"{{ obj }}", "@dump(obj)", "{{ {a1: 1, a01: 2, a001: 3, a10: 4, a2: 5} }}", "{{ {\"7\": 1, \"07\": 2, \"007\": 3, \"70\": 4, \" 7\": 5} }}",
			"@dump({\"1.0\": 1, \"1.00\": 2, \"01.0\": 3})", "@each(o in [obj, {x0: 1, x00: 2}])[{{ o }}]@end"} {
			addRepeated("numeric_variant_keys", newTree(), nil, opEvs(src, gvMap("obj", obj)), src)
		}
	}
	// several unsupported values in the data at once
	{
		bad := gvMap("b", &GV{K: "O", Other: "chan"}, "a", &GV{K: "O", Other: "func"}, "c", &GV{K: "O", Other: "complex"}, "loop", gvInt(1))
		addRepeated("several_bad_data_values", newTree(), nil, opEvs("x", bad), "EvaluateString with several unsupported data values")
		// several unsupported values of different types inside one nested map (and list, and struct): the same error every time
		nestedBad := gvMap("ok", gvInt(1), "m", gvMap("a", &GV{K: "O", Other: "chan"}, "b", &GV{K: "O", Other: "func"}, "c", &GV{K: "O", Other: "complex"}, "d", &GV{K: "O", Other: "array"}))
		addRepeated("several_bad_data_values", newTree(), nil, opEvs("x", nestedBad), "EvaluateString with several unsupported values inside a nested map")
		nestedBad2 := gvMap("l", gvList(gvMap("p", &GV{K: "O", Other: "func"}, "q", &GV{K: "O", Other: "chan"}), gvMap("r", &GV{K: "O", Other: "complex"}, "s", &GV{K: "O", Other: "intkeymap"})))
		addRepeated("several_bad_data_values", newTree(), nil, opEvs("x", nestedBad2), "EvaluateString with several unsupported values inside maps inside a list")
		// a render that fails inside a loop header, then nested loops: the same output every time
		addRepeated("nested_loops_after_a_failed_loop", newTree(), []string{opEvs("@for(i = 0; i < 3; i.str())x@end", nil), opEvs("@each(v in [1, 2])@for(i = 0; i < 2; nil)@end@end", nil)},
			opEvs("@for(i = 0; i < 2; i++)[@for(j = 0; j < 2; j++){{ i }}{{ j }}@end]@end|@each(a in [1, 2])(@each(b in [3, 4]){{ a }}{{ b }}@end)@end", nil), "a failing @for, then nested loops")
		for _, c := range cs[len(cs)-copies:] {
			same := c.Oracle
			c.Oracle = func(c *Case, impl string) string {
				if why := same(c, impl); why != "" {
					return why
				}
				return wantOK("[0001][1011]|(1314)(2324)")(results(impl)[2])
			}
		}
		for _, kind := range []string{"intkeymap", "boolkeymap", "mixedkeymap", "floatkeymap"} {
			addRepeated("maps_with_other_keys", newTree(), nil, opEvs("{{ m }}|@dump(m)", gvMap("m", &GV{K: "O", Other: kind})), "printing a "+kind)
		}
	}
	// several simultaneous load faults
	{
		t := newTree()
		t.files["tpl/layouts/l.tw"] = `<@reserve("ok")>`
		t.files["tpl/p.tw"] = `@use("~l")@insert("zeta")1@end@insert("alpha")2@end@insert("mid")3@end@insert("ok")4@end`
		addRepeated("several_undefined_inserts", t, nil, opNew("tpl", ".tw", "", false), "NewTemplate with three undefined inserts")
	}
	{
		// one undefined insert, many reserves whose names are equally close to it (a message that suggests "the nearest one"
		// must suggest the same one every time)
		t := newTree()
		var rs strings.Builder
		for _, n := range []string{"sidebar1", "sidebar2", "sidebar3", "sidebar4", "sidebars", "sidebarx", "xsidebar", "sidbar", "sidebbar", "Sidebar", "side_bar", "sidebar9", "sidebar0"} {
			rs.WriteString(`<@reserve("` + n + `")>`)
		}
		t.files["tpl/layouts/l.tw"] = rs.String()
		t.files["tpl/p.tw"] = `@use("~l")@insert("sidebar")1@end@insert("sidebar1")2@end`
		addRepeated("undefined_insert_among_similar_reserves", t, nil, opNew("tpl", ".tw", "", false), "NewTemplate with an undefined insert next to thirteen similar reserves")
		t2 := newTree()
		t2.files["tpl/layouts/l.tw"] = rs.String()
		t2.files["tpl/p.tw"] = `@use("~l")@insert("sidebar5")1@end@insert("sideba")2@end@insert("sidebar1")3@end`
		addRepeated("undefined_insert_among_similar_reserves", t2, nil, opNew("tpl", ".tw", "", false), "NewTemplate with two undefined inserts next to thirteen similar reserves")
	}
	{
		t := newTree()
		t.files["tpl/components/c.tw"] = `@slot("header")|@slot("footer")|@slot`
		t.files["tpl/p.tw"] = `@component("~c")@slot("header")a@end@slot("footer")b@end@slot("footer")c@end@slot("header")d@end@slot("footer")e@end@end`
		addRepeated("several_duplicate_slots", t, nil, opNew("tpl", ".tw", "", false), "NewTemplate with two duplicated slot names")
	}
	{
		t := newTree()
		for _, n := range []string{"zz", "aa", "mm", "bb/cc", "q"} {
			t.files["tpl/"+n+".tw"] = "{{ 1 + }}" + n
		}
		t.files["tpl/fine.tw"] = "fine"
		addRepeated("several_faulty_files", t, nil, opNew("tpl", ".tw", "", false), "NewTemplate with five faulty files")
	}
	{
		// many faulty files of very different sizes (a loader that works on them concurrently would
		// report whichever finishes first)
		t := newTree()
		for i := 0; i < 24; i++ {
			n := fmt.Sprintf("f%02d", (i*7)%24)
			body := strings.Repeat("text {{ 1 + 1 }} more\n", 1+(i*37)%400)
			if i%2 == 0 {
				t.files["tpl/"+n+".tw"] = body + "{{ 1 + }}"
			} else {
				t.files["tpl/"+n+".tw"] = "{{ ) }}" + body
			}
		}
		addRepeated("many_faulty_files", t, nil, opNew("tpl", ".tw", "", false), "NewTemplate with 24 faulty files of different sizes")
	}
	{
		t := newTree()
		t.files["tpl/components/c.tw"] = `{{ a }}{{ b }}`
		t.files["tpl/p.tw"] = `@component("~c", {b: nosuchB, a: nosuchA, c: 1 % 0})`
		addRepeated("several_failing_component_args", t, []string{opNew("tpl", ".tw", "", false)}, opStr("p", nil), "String(p): component with three failing arguments")
	}
	{
		t := newTree()
		t.files["tpl/components/c.tw"] = `{{ a }}{{ b }}`
		t.files["tpl/p.tw"] = `{{ b = "s" }}{{ a = "t" }}@component("~c", {b: 1, a: 2})`
		addRepeated("several_failing_component_args", t, []string{opNew("tpl", ".tw", "", false)}, opStr("p", nil), "String(p): component with two re-typed arguments")
	}
	// the same failing render repeated with other calls in between
	{
		t := c16Tree()
		for _, name := range []string{"bad", "missing", "blog/post", "home"} {
			for k := 0; k < copies; k++ {
				ops := []string{opNew("tpl", ".tw", "", k%2 == 1)}
				var idx []int
				for i := 0; i < reps/2; i++ {
					idx = append(idx, len(ops))
					ops = append(ops, opStr(name, gvMap("who", gvStr("w"), "xs", gvList(gvInt(1), gvInt(2)))))
					switch i % 4 {
					case 0:
						ops = append(ops, opEvs("{{ 1 }}", nil))
					case 1:
						ops = append(ops, opResp("bad", nil))
					case 2:
						ops = append(ops, opEvf("files/f.tw", nil))
					default:
						ops = append(ops, opStr("home", nil))
					}
				}
				c := histCase("interleaved_repeats", t, ops, "String("+name+") repeated with EvaluateString / Response / EvaluateFile / String(home) in between")
				c.Oracle = func(c *Case, impl string) string {
					rs := results(impl)
					for _, i := range idx {
						if i < len(rs) && rs[i] != rs[idx[0]] {
							return fmt.Sprintf("the same render gave %s first and %s later", describe(rs[idx[0]]), describe(rs[i]))
						}
					}
					return ""
				}
				cs = append(cs, c)
			}
		}
	}
	// random programs and trees: every render repeated
	for i := 0; i < g.scale(150, 4000); i++ {
		sc := stdScope()
		src := g.untypedTemplate(sc, 2)
		if strings.Contains(src, "shuffle") || strings.Contains(src, "rand") {
			continue
		}
		addRepeated("random_programs", newTree(), nil, opEvs(src, sc.data), src)
	}
	return cs
}

// ---------------------------------------------------------------------------------------------
// C16

func c16Tree() *Tree {
	t := newTree()
	t.files["tpl/home.tw"] = "home {{ who }} @each(x in xs){{ x }};@end"
	t.files["tpl/bad.tw"] = "start\n@each(x in xs)<li>{{ x }}</li>@if(x == 2){{ nosuch }}@end@end"
	t.files["tpl/badfor.tw"] = "@for(i = 0; i < 3; i++)<{{ i }}>@if(i == 1){{ 1 / 0 }}@end@end"
	t.files["tpl/top.tw"] = "{{ total = 3 }}{{ total }}"
	t.files["tpl/read.tw"] = "[{{ total }}]"
	t.files["tpl/retype.tw"] = "{{ total = \"s\" }}{{ total }}"
	t.files["tpl/loops.tw"] = "<p>@for(i = 1; i < 4; i++){{ i }};@end</p>"
	t.files["tpl/blog/post.tw"] = "post\n\n{{ nosuch2 }}"
	t.files["tpl/err.tw"] = "custom error page"
	t.files["tpl/layouts/l.tw"] = "<L>@reserve(\"b\")</L>"
	t.files["tpl/withlayout.tw"] = "@use(\"~l\")@insert(\"b\"){{ who }}@end"
	t.files["files/f.tw"] = "file {{ who }}"
	// templates whose only use of the data is in an unusual place
	t.files["tpl/elseifdata.tw"] = "@if(false)a@elseif(who == \"Ann\")ann@else other@end"
	t.files["tpl/components/c.tw"] = "<c>@slot</c>"
	t.files["tpl/slotdata.tw"] = "@component(\"~c\")@slot@if(false)x@elseif(who == \"Ann\")A@else B@end@end@end"
	t.files["tpl/ternarydata.tw"] = "{{ true ? (false ? 1 : who) : 2 }}"
	// a file of the same relative path below the template directory: EvaluateFile never looks there
	t.files["tpl/files/f.tw"] = "not this one {{ who }}"
	t.files["tpl/dotname.tw"] = "{{ user.name }}|@each(q in [1, 2]){{ user.name }}@end"
	// string literals with characters that are escaped when the literal is evaluated: the loaded program is the same after every render
	t.files["tpl/lits.tw"] = "{{ \"Fish & Chips\" }}|{{ who == \"Ann\" ? \"<b>x</b>\" : \"it's\" }}|@each(q in [1, 2]){{ \"a<b\" }}@end|{{ 'q\"q' }}"
	return t
}

func c16Ops() []string {
	d1 := gvMap("who", gvStr("Ann"), "xs", gvList(gvInt(1), gvInt(2), gvInt(3)))
	d2 := gvMap("who", gvStr("Bo"), "xs", gvList(gvInt(1)))
	return []string{
		opStr("home", d1), opStr("home", d2), opStr("bad", d1), opStr("bad", d2), opStr("badfor", nil), opStr("missing", d1), opStr("blog/post", nil),
		opStr("top", nil), opStr("read", nil), opStr("retype", nil), opStr("loops", nil), opStr("withlayout", d1), opStr("layouts/l", d1),
		opResp("home", d1), opResp("bad", d1), opResp("missing", nil), opResp("read", nil), opResp("loops", nil),
		opEvs("{{ total = 1 }}{{ total }}", nil), opEvs("[{{ total }}]", nil), opEvs("{{ who }}!", d1), opEvs("{{ 1 + }}", nil), opEvs("@each(x in xs){{ x }}@if(x == 2){{ nosuch }}@end@end", d1),
		opEvf("files/f.tw", d1), opEvf("files/none.tw", nil), opEvfRel("files/f.tw", d2), opEvfRel("./files/../files/f.tw", d1),
		// one access path, values of different shapes from call to call; struct types that share a name
		opStr("dotname", gvMap("user", &GV{K: "T", Keys: []string{"Name"}, Export: []bool{true}, Elems: []*GV{gvStr("S")}})),
		opStr("dotname", gvMap("user", gvMap("name", gvStr("lower"), "Name", gvStr("UPPER")))),
		opEvs("{{ r.a }}-{{ r.b }}", gvMap("r", gvNamed(0))), opEvs("{{ r.b }}-{{ r.c }}-{{ r.a }}", gvMap("r", gvNamed(1))), opEvs("{{ r.name }}-{{ r.tags[0] }}", gvMap("r", gvNamed(2))),
		opStr("elseifdata", d1), opStr("elseifdata", d2), opStr("slotdata", d1), opStr("slotdata", d2), opStr("ternarydata", d1), opStr("ternarydata", d2),
		opStr("lits", d1), opStr("lits", d2), opResp("lits", d1), opEvs("{{ \"a & b\" }}{{ '<i>' }}", nil),
	}
}

func casesC16(g *Gen) []*Case {
	var cs []*Case
	ops := c16Ops()
	cfgs := []string{opNew("tpl", ".tw", "", false), opNew("tpl", ".tw", "err", false), opNew("tpl", ".tw", "", true), opNew("./tpl/", ".tw", "nosuchpage", false)}
	// two shapes: the operation issued first, then the history, then again (state that survives a
	// reset still shows); and the history alone before it (otherwise the operation would itself be
	// the first call of its name and hide a result remembered from the history)
	var mk1 func(fam string, cfg string, hist []int, x int, first bool)
	mk := func(fam string, cfg string, hist []int, x int) {
		mk1(fam, cfg, hist, x, true)
		if len(hist) > 0 {
			mk1(fam, cfg, hist, x, false)
		}
	}
	mk1 = func(fam string, cfg string, hist []int, x int, first bool) {
		var seq []string
		seq = append(seq, cfg)
		if first {
			seq = append(seq, ops[x])
		}
		var note []string
		for _, h := range hist {
			seq = append(seq, ops[h])
			note = append(note, strconv.Itoa(h))
		}
		at := len(seq)
		seq = append(seq, ops[x], opReset(), cfg, ops[x])
		c := histCase(fam, c16Tree(), seq, "NewTemplate; ops "+strings.Join(note, ",")+"; then op "+strconv.Itoa(x)+" = "+ops[x]+"; reset; NewTemplate; the same op")
		c.Oracle = func(c *Case, impl string) string {
			rs := results(impl)
			if len(rs) != at+4 {
				return "missing answers: " + clip(impl, 200)
			}
			if first && rs[at] != rs[1] {
				return fmt.Sprintf("issued first the operation returned %s, after the history it returned %s", describe(rs[1]), describe(rs[at]))
			}
			if rs[at] != rs[at+3] {
				return fmt.Sprintf("after the history the operation returned %s, issued first in a fresh state it returns %s", describe(rs[at]), describe(rs[at+3]))
			}
			return ""
		}
		cs = append(cs, c)
	}
	// two different sources of one length whose usual 32-bit checksums are equal, evaluated one after the other
	for _, col := range collidingPairs("c16", numShape("<p>{{ \"", "\" }}</p>")) {
		t := c16Tree()
		t.files["files/a.tw"] = col.a
		t.files["files/b.tw"] = col.b
		inner := func(x string) string { return x[len("<p>{{ \"") : len(x)-len("\" }}</p>")] }
		wa, wb := wantOK("<p>"+inner(col.a)+"</p>"), wantOK("<p>"+inner(col.b)+"</p>")
		seq := []string{opNew("tpl", ".tw", "", false), opEvs(col.a, nil), opEvs(col.b, nil), opEvs(col.a, nil), opEvf("files/b.tw", nil), opEvf("files/a.tw", nil), opEvs(col.b, nil)}
		c := histCase("checksum_twins", t, seq, "EvaluateString / EvaluateFile of two sources that collide under "+col.fn)
		c.Oracle = expectResults(map[int]func(string) string{1: wa, 2: wb, 3: wa, 4: wb, 5: wa, 6: wb})
		c.Tags = []string{col.fn}
		cs = append(cs, c)
	}
	// all histories of length ≤ 1 (quick) / ≤ 2 (thorough) exhaustively, then random longer ones
	for x := range ops {
		mk("history_len0", cfgs[x%len(cfgs)], nil, x)
		for h := range ops {
			mk("history_len1", cfgs[(x+h)%len(cfgs)], []int{h}, x)
		}
	}
	if g.thorough() {
		for x := range ops {
			for h1 := range ops {
				for h2 := range ops {
					if (x+h1+h2)%3 == 0 {
						mk("history_len2", cfgs[(x+h1)%len(cfgs)], []int{h1, h2}, x)
					}
				}
			}
		}
	}
	for i := 0; i < g.scale(1500, 40000); i++ {
		n := 2 + g.n(5)
		var h []int
		for k := 0; k < n; k++ {
			h = append(h, g.n(len(ops)))
		}
		mk("history_random", cfgs[g.n(len(cfgs))], h, g.n(len(ops)))
	}
	return cs
}

// ---------------------------------------------------------------------------------------------
// C17

func casesC17(g *Gen) []*Case {
	var cs []*Case
	mkTree := func() *Tree {
		t := newTree()
		t.files["tpl/ok.tw"] = "fine 100% {{ who }} %d %s"
		t.files["tpl/late.tw"] = "PARTIAL-MARK {{ 1 }} more\n@each(x in [1, 2, 3])<{{ x }}>@if(x == 2){{ nosuchname }}@end@end tail"
		t.files["tpl/early.tw"] = "{{ nosuchname }}PARTIAL-MARK"
		t.files["tpl/sub/deep.tw"] = "PARTIAL-MARK\n\n{{ 7 / 0 }}"
		t.files["tpl/err.tw"] = "custom error page 50%"
		t.files["tpl/errfail.tw"] = "ERRPAGE-PARTIAL {{ nosuch2 }}"
		t.files["tpl/comp.tw"] = "[@slot]"
		t.files["tpl/lay.tw"] = "<@reserve(\"c\")>"
		t.files["tpl/dumpfail.tw"] = "PARTIAL-MARK @dump(1, nosuchname)"
		t.files["tpl/slotfail.tw"] = "PARTIAL-MARK\n@component(\"comp\")@slot<{{ nosuchname }}>@end@end"
		t.files["tpl/insertfail.tw"] = "@use(\"lay\")@insert(\"c\")PARTIAL-MARK\n\n{{ nosuchname }}@end"
		t.files["tpl/argfail.tw"] = "PARTIAL-MARK @component(\"comp\", {a: nosuchname})"
		t.files["tpl/loopok.tw"] = "@each(x in [1, 2])<{{ x }}>@end@for(i = 0; i < 2; i++)[{{ i }}]@end"
		t.files["tpl/longmsg.tw"] = "PARTIAL-MARK {{ " + strings.Repeat("averylongname", 40) + "_end }}"
		t.files["tpl/uni.tw"] = "héllo wörld ✓ 日本 {{ who }} — {{ \"é\".upper() }}"
		t.files["tpl/err.tw"] = "custom error page 50%@each(q in [1])@end{{ who = 5 }}"
		// the same page under names that end in letters of the extension, or hold a dot
		for _, n := range []string{"errors/default", "etw", "e.t", "view", "errors/500.t", "w"} {
			t.files["tpl/"+n+".tw"] = t.files["tpl/err.tw"]
		}
		return t
	}
	type page struct {
		name    string
		ok      bool
		want    string
		msgPart string
		line    string
		file    string
	}
	data := gvMap("who", gvStr("A%s"))
	pages := []page{
		{"ok", true, "fine 100% A%s %d %s", "", "", ""},
		{"late", false, "", "nosuchname", "2", "late.tw"},
		{"early", false, "", "nosuchname", "1", "early.tw"},
		{"sub/deep", false, "", "division by zero", "3", "deep.tw"},
		{"missingpage", false, "", "template not found", "0", "missingpage.tw"},
		{"dumpfail", false, "", "nosuchname", "1", "dumpfail.tw"},
		{"slotfail", false, "", "nosuchname", "2", "slotfail.tw"},
		{"insertfail", false, "", "nosuchname", "3", "insertfail.tw"},
		{"argfail", false, "", "nosuchname", "1", "argfail.tw"},
		{"loopok", true, "<1><2>[0][1]", "", "", ""},
		{"uni", true, "héllo wörld ✓ 日本 A%s — É", "", "", ""},
		{"longmsg", false, "", strings.Repeat("averylongname", 40) + "_end", "1", "longmsg.tw"},
		{"late", false, "", "nosuchname", "2", "late.tw"},
		{"loopok", true, "<1><2>[0][1]", "", "", ""},
	}
	for _, debug := range []bool{false, true} {
		for _, ep := range []string{"", "err", "nopage", "errfail", "errors/default", "etw", "e.t", "view", "errors/500.t", "w"} {
			for _, pre := range []string{"", "debugflip", "evs", "fliprender"} {
				if len(ep) > 0 && !containsStr([]string{"err", "nopage", "errfail"}, ep) && pre != "" {
					continue
				}
				var ops []string
				var note []string
				if pre == "debugflip" {
					ops = append(ops, opNew("tpl", ".tw", ep, !debug))
					note = append(note, fmt.Sprintf("NewTemplate(debug=%v)", !debug))
				}
				if pre == "fliprender" {
					// the same failures rendered under the other debug setting first
					ops = append(ops, opNew("tpl", ".tw", ep, !debug))
					note = append(note, fmt.Sprintf("NewTemplate(debug=%v)", !debug))
					for _, p := range pages {
						ops = append(ops, opResp(p.name, data))
						note = append(note, "Response("+p.name+")")
					}
				}
				ops = append(ops, opNew("tpl", ".tw", ep, debug))
				note = append(note, fmt.Sprintf("NewTemplate(errorPage=%q, debug=%v)", ep, debug))
				if pre == "evs" {
					ops = append(ops, opEvs("x", nil))
					note = append(note, "EvaluateString")
				}
				first := len(ops)
				for _, p := range pages {
					ops = append(ops, opResp(p.name, data))
					note = append(note, "Response("+p.name+")")
				}
				c := histCase("response_matrix", mkTree(), ops, strings.Join(note, "; "))
				debug, ep := debug, ep
				c.Oracle = func(c *Case, impl string) string {
					rs := results(impl)
					if len(rs) != first+len(pages) {
						return "missing answers: " + clip(impl, 200)
					}
					for i, p := range pages {
						r := rs[first+i]
						body, errS, okR := parseResp(r)
						if !okR {
							return fmt.Sprintf("Response(%s): %s", p.name, clip(r, 200))
						}
						if p.ok {
							if body != p.want || errS != "nil" {
								return fmt.Sprintf("Response(%s) must write the complete page %q and return nil; body %q, error %s", p.name, p.want, body, errS)
							}
							continue
						}
						if errS == "nil" {
							return fmt.Sprintf("Response(%s) failed to render but returned nil", p.name)
						}
						if strings.Contains(body, "PARTIAL-MARK") {
							return fmt.Sprintf("Response(%s): the body contains a part of the failed page: %q", p.name, clip(body, 120))
						}
						customOK := ep != "" && ep != "nopage" && ep != "errfail"
						customConfigured := ep != ""
						switch {
						case customConfigured && !debug && customOK:
							if body != "custom error page 50%" {
								return fmt.Sprintf("Response(%s): expected the custom error page, body %q", p.name, clip(body, 160))
							}
						case customConfigured && !debug && !customOK:
							if body != "" {
								return fmt.Sprintf("Response(%s): the custom error page fails, the body must be empty, got %q", p.name, clip(body, 160))
							}
						default:
							// the built-in page
							if !strings.Contains(body, "<html") {
								return fmt.Sprintf("Response(%s): expected the built-in error page, body %q", p.name, clip(body, 160))
							}
							leak := strings.Contains(body, p.msgPart) || strings.Contains(body, p.file) || strings.Contains(body, "tpl/") || strings.Contains(body, "/c/tpl")
							if !debug && leak {
								return fmt.Sprintf("Response(%s) with debug mode off leaks the message or the path: %q", p.name, extractAround(body, p.msgPart, p.file))
							}
							if debug && !(strings.Contains(body, p.msgPart) && strings.Contains(body, p.file) && strings.Contains(body, ":"+p.line)) {
								return fmt.Sprintf("Response(%s) with debug mode on must show message, path and line", p.name)
							}
						}
					}
					return ""
				}
				cs = append(cs, c)
			}
		}
	}
	// generated failing templates: the failure happens after some output, at every statement position
	for i := 0; i < g.scale(300, 5000); i++ {
		sc := stdScope()
		parts, _ := g.templateParts(sc, 2)
		k := g.n(len(parts) + 1)
		src := "PARTIAL-MARK" + strings.Join(parts[:k], "") + "{{ nosuchname }}" + strings.Join(parts[k:], "")
		t := newTree()
		t.files["tpl/p.tw"] = src
		debug := g.chance(1, 2)
		c := histCase("response_random_failure", t, []string{opNew("tpl", ".tw", "", debug), opResp("p", sc.data)}, "NewTemplate; Response(p)")
		c.Oracle = func(c *Case, impl string) string {
			rs := results(impl)
			if len(rs) != 2 || strings.HasPrefix(rs[0], "NEWERR") {
				return "" // the cut produced a template that does not load
			}
			body, errS, okR := parseResp(rs[1])
			if !okR {
				return ""
			}
			if errS != "nil" && strings.Contains(body, "PARTIAL-MARK") {
				return "the body contains a part of the failed page"
			}
			if errS != "nil" && !debug && (strings.Contains(body, "nosuchname") || strings.Contains(body, "p.tw")) {
				return "debug mode is off but the body shows the message or the path"
			}
			return ""
		}
		cs = append(cs, c)
	}
	return cs
}

// parseResp splits "RESP <body-hex> <error>" (the body may be empty)
func parseResp(r string) (body, errS string, ok bool) {
	if !strings.HasPrefix(r, "RESP ") {
		return "", "", false
	}
	rest := strings.TrimPrefix(r, "RESP ")
	i := strings.Index(rest, " ")
	if i < 0 {
		return "", "", false
	}
	return unhx(rest[:i]), rest[i+1:], true
}

func extractAround(body string, parts ...string) string {
	for _, p := range parts {
		if p == "" {
			continue
		}
		if i := strings.Index(body, p); i >= 0 {
			a := i - 40
			if a < 0 {
				a = 0
			}
			bnd := i + len(p) + 40
			if bnd > len(body) {
				bnd = len(body)
			}
			return body[a:bnd]
		}
	}
	return clip(body, 120)
}

// ---------------------------------------------------------------------------------------------
// C20

var c20Types = []string{"str", "arr", "int", "float", "bool"}
var c20Plural = map[string]string{"str": "strings", "arr": "arrays", "int": "integers", "float": "floats", "bool": "booleans"}
var c20TypeName = map[string]string{"str": "STRING", "arr": "ARRAY", "int": "INTEGER", "float": "FLOAT", "bool": "BOOLEAN"}

// receivers (literal and variable form) and what the library functions return for them
type c20Recv struct {
	lit, varName string
	f0, f1       func(args string, nargs int) string // expected rendering
}

func c20Receivers() (map[string]c20Recv, *GV) {
	data := gvMap("sv", gvStr("abc"), "av", gvList(gvInt(1), gvStr("x")), "iv", gvInt(20), "fv", gvFloat(2.5), "bv", gvBool(true))
	return map[string]c20Recv{
		"str": {`"abc"`, "sv", func(a string, n int) string { return "abc|" + a }, func(a string, n int) string { return "const" }},
		"arr": {`[1, "x"]`, "av", nil, nil},
		"int": {"20", "iv", func(a string, n int) string { return strconv.Itoa(20 + n) }, func(a string, n int) string { return "40" }},
		"float": {"2.5", "fv", func(a string, n int) string { return "1.25" }, func(a string, n int) string { return strconv.FormatFloat(2.5+float64(n), 'f', -1, 64) }},
		"bool": {"true", "bv", func(a string, n int) string { return "0" }, func(a string, n int) string { return map[bool]string{true: "1", false: "0"}[n > 0] }},
	}, data
}

func casesC20(g *Gen) []*Case {
	var cs []*Case
	recvs, data := c20Receivers()
	names := []string{"f", "g", "len", "upper", "md5", "times10", "to_snake", "_p", "Up", "x2y"}
	// argument lists with their canonical description (what a str function echoes)
	argLists := []struct{ src, desc string; n int }{
		{"", "", 0}, {"1", "i:1,", 1}, {`"s", 2.5`, "s:s,f:2.5,", 2}, {"true, nil", "b:true,nil,", 2}, {`[1, [2, "z"]], {k: 1, a: [true]}`, "[i:1,[i:2,s:z,],],{a=[b:true,],k=i:1,},", 2},
		{"iv, sv", "i:20,s:abc,", 2}, {"av", "[i:1,s:x,],", 1},
	}
	builtin := func(ty, name string) bool {
		switch ty {
		case "str":
			return name == "len" || name == "upper"
		case "arr", "int":
			return name == "len"
		}
		return false
	}
	mkHist := func(fam string, regs [][3]string, loadAt int, calls []string) {
		// regs: (type, name, fid); the registry of the statement: first writer wins
		first := map[string]string{}
		var ops []string
		var note []string
		checks := map[int]func(string) string{}
		for i, r := range regs {
			if i == loadAt {
				ops = append(ops, opNewNil())
				note = append(note, "NewTemplate")
			}
			fid, _ := strconv.Atoi(r[2])
			key := r[0] + "/" + r[1]
			idx := len(ops)
			ops = append(ops, opReg(r[0], r[1], fid))
			note = append(note, fmt.Sprintf("Register(%s,%s,fn%d)", r[0], r[1], fid))
			if _, dup := first[key]; dup {
				name := r[1]
				checks[idx] = func(res string) string {
					if strings.HasPrefix(res, "REGERR") && strings.Contains(unhx(lastField(res)), name) {
						return ""
					}
					return "registering an already registered name must fail and name the function: " + clip(res, 160)
				}
			} else {
				first[key] = r[2]
				checks[idx] = func(res string) string {
					if res == "REGOK" {
						return ""
					}
					return "the first registration of a name for a type must succeed: " + clip(res, 160)
				}
			}
		}
		if loadAt >= len(regs) {
			ops = append(ops, opNewNil())
			note = append(note, "NewTemplate")
		}
		for _, ty := range c20Types {
			for _, nm := range calls {
				rv := recvs[ty]
				for _, form := range []string{rv.lit, rv.varName} {
					al := argLists[g.n(len(argLists))]
					src := "{{ " + form + "." + nm + "(" + al.src + ") }}"
					idx := len(ops)
					ops = append(ops, opEvs(src, data))
					note = append(note, src)
					fidS, registered := first[ty+"/"+nm]
					switch {
					case builtin(ty, nm):
						// the built-in wins; its result is checked by the correspondence with the model
					case !registered:
						nmC, tyC := nm, c20TypeName[ty]
						checks[idx] = func(res string) string {
							f := strings.Fields(res)
							if len(f) >= 4 && f[0] == "ERR" && strings.Contains(unhx(f[3]), nmC) && strings.Contains(unhx(f[3]), tyC) {
								return ""
							}
							return "calling an unregistered function must be an error naming the function and the receiver type: " + describe(res)
						}
					case ty == "arr":
						// arr fn0: receiver ++ args, fn1: [desc(receiver), desc(args)]; rendered as a joined array: model checks it
					default:
						want := rv.f0(al.desc, al.n)
						if fidS == "1" {
							want = rv.f1(al.desc, al.n)
						}
						if ty == "float" && fidS == "1" {
							want = strconv.FormatFloat(2.5+float64(al.n), 'f', -1, 64)
						}
						checks[idx] = wantOK(want)
					}
				}
			}
		}
		c := histCase(fam, newTree(), ops, strings.Join(note, "; "))
		c.Oracle = expectResults(checks)
		cs = append(cs, c)
	}
	// exhaustive short registration histories over 2 types x 2 names x 2 functions
	var regOps [][3]string
	for _, ty := range []string{"str", "int"} {
		for _, nm := range []string{"f", "len"} {
			for _, fid := range []string{"0", "1"} {
				regOps = append(regOps, [3]string{ty, nm, fid})
			}
		}
	}
	for a := range regOps {
		for b := range regOps {
			for load := 0; load <= 2; load++ {
				mkHist("register_pairs", [][3]string{regOps[a], regOps[b]}, load, []string{"f", "len"})
			}
		}
	}
	// names with digits, underscores and capitals are names like any other: registered once, refused afterwards, callable
	for _, nm := range []string{"md5", "times10", "to_snake_case", "_private", "UPPER", "a1b2c3", "x_", "l33t", "f0"} {
		for _, ty := range c20Types {
			mkHist("names_with_digits", [][3]string{{ty, nm, "0"}, {ty, nm, "1"}}, g.n(3), []string{nm, "f"})
		}
	}
	// every type: same name registered for several types, in both orders
	for _, t1 := range c20Types {
		for _, t2 := range c20Types {
			mkHist("register_across_types", [][3]string{{t1, "g", "0"}, {t2, "g", "1"}, {t1, "g", "1"}}, g.n(4), []string{"g", "f"})
		}
	}
	// random histories
	for i := 0; i < g.scale(400, 10000); i++ {
		n := 1 + g.n(6)
		var regs [][3]string
		for k := 0; k < n; k++ {
			regs = append(regs, [3]string{g.pick(c20Types), g.pick(names), strconv.Itoa(g.n(2))})
		}
		mkHist("register_random", regs, g.n(n+2), []string{g.pick(names), g.pick(names)})
	}
	// faithful conversion: results of array functions appear as if passed as data
	{
		ops := []string{opReg("arr", "wrap", 0), opReg("arr", "info", 1), opReg("str", "echo", 0),
			opEvs(`{{ [1, "a"].wrap(2.5, [true, nil], {k: "v"}).len() }}`, nil),
			opEvs(`{{ [1, "a"].wrap(2.5, [true, nil], {k: "v"})[3][0] }}|{{ [].wrap({k: "v"})[0].k }}|{{ [7].wrap(nil)[1] ? "no" : "nil" }}`, nil),
			opEvs(`{{ [1, [2]].info("x", 1.5)[0] }}~{{ [].info()[1] }}`, nil),
			opEvs(`{{ "r".echo(9223372036854775807, 0 - 1, 0.1, "", [], {}) }}`, nil)}
		c := histCase("conversion_roundtrip", newTree(), ops, "Register; calls with nested arguments")
		c.Oracle = expectResults(map[int]func(string) string{3: wantOK("5"), 4: wantOK("1|v|nil"), 5: wantOK("i:1,[i:2,],~"), 6: wantOK("r|i:9223372036854775807,i:-1,f:0.1,s:,[],{},")})
		cs = append(cs, c)
	}
	// a custom array function that edits the slice it receives in place and returns it: the result is what is shown,
	// and the caller's data is left alone
	{
		d := gvMap("xs", gvList(gvStr("a"), gvStr("bad"), gvStr("c")))
		ops := []string{opReg("arr", "censor", 2),
			opEvs(`{{ ["a", "bad", "c"].censor("bad") }}|{{ xs.censor("bad") }}|{{ xs }}|{{ [1, 2, 1].censor(1).len() }}|{{ [1, 2].censor() }}`, d)}
		c := histCase("in_place_array_function", newTree(), ops, "Register(arr censor); calls on a literal and on data")
		c.Oracle = expectResults(map[int]func(string) string{1: wantOK("a, ***, c|a, ***, c|a, bad, c|3|1, 2")})
		cs = append(cs, c)
	}
	// a function that edits the container it receives: the next call on the same variable gets the variable's value again
	{
		d := gvMap("xs", gvList(gvStr("a"), gvStr("bad"), gvStr("c")))
		ops := []string{opReg("arr", "censor", 2), opReg("arr", "tagged", 3),
			opEvs(`{{ xs.censor("bad") }}|{{ xs.censor("zzz") }}|{{ xs.censor("a") }}|{{ xs }}`, d),
			opEvs(`@each(i in [1, 2]){{ xs.censor("c") }};@end{{ xs.tagged().len() }}{{ xs.tagged().len() }}`, d),
			opEvs(`{{ ys = ["p", "q"] }}{{ ys.censor("p") }}|{{ ys.censor("q") }}|{{ ys.tagged(1).len() }}|{{ ys.tagged(1).len() }}|{{ ys }}`, nil),
			opEvs(`@each(row in [["a", "b"], ["b", "a"]]){{ row.censor("a") }}/{{ row.censor("b") }};@end`, nil)}
		ops = append(ops, opReg("str", "take", 5),
			opEvs(`{{ "s".take(xs) }}|{{ "s".take(xs) }}|{{ xs }}|{{ "s".take(o) }}|{{ "s".take(o) }}|{{ o }}`, gvMap("xs", gvList(gvStr("a"), gvStr("bad"), gvStr("c")), "o", gvMap("k", gvInt(1), "l", gvInt(2)))),
			opEvs(`{{ ys = [3, 1, 2] }}@each(i in [1, 2, 3]){{ "s".take(ys) }},@end{{ ys }}|{{ "s".take([ys, ys]) }}{{ "s".take([ys]) }}|{{ zs = {p: [1]} }}{{ "s".take(zs) }}{{ "s".take(zs) }}{{ zs.p }}`, nil),
			opEvs(`@each(row in [[5, 6], [7]]){{ "s".take(row) }}{{ "s".take(row) }};@end{{ "s".take(1) }}{{ "s".take([]) }}`, nil))
		c := histCase("function_edits_its_argument", newTree(), ops, "Register(arr censor: in place; arr tagged: extends); repeated calls on one variable")
		c.Oracle = expectResults(map[int]func(string) string{2: wantOK("a, ***, c|a, bad, c|***, bad, c|a, bad, c"), 3: wantOK("a, bad, ***;a, bad, ***;44"),
			4: wantOK("***, q|p, ***|4|4|p, q"), 5: wantOK("***, b/a, ***;b, ***/***, a;"),
			7: wantOK("s:a|s:a|a, bad, c|2|2|{k: 1, l: 2}"), 8: wantOK("i:3,i:3,i:3,3, 1, 2|[i:3,i:1,i:2,][i:3,i:1,i:2,]|111"), 9: wantOK("i:5i:5;i:7i:7;nonenone")})
		cs = append(cs, c)
	}
	// registered functions are callable from every template that is rendered, the configured error page included
	{
		t := newTree()
		t.files["tpl/err.tw"] = `E {{ "x".echo(1) }} {{ 2.cnt() }}`
		t.files["tpl/bad.tw"] = `{{ nosuchname }}`
		t.files["tpl/ok.tw"] = `{{ "y".echo() }}`
		ops := []string{opReg("str", "echo", 0), opReg("int", "cnt", 0), opNew("tpl", ".tw", "err", false), opResp("bad", nil), opStr("err", nil), opResp("ok", nil), opResp("nosuchpage", nil)}
		c := histCase("functions_in_the_error_page", t, ops, "Register; NewTemplate(errorPage=err); Response of a failing page")
		c.Oracle = func(c *Case, impl string) string {
			rs := results(impl)
			if len(rs) < 7 {
				return "missing answers"
			}
			for _, i := range []int{3, 6} {
				body, errS, ok := parseResp(rs[i])
				if !ok || errS == "nil" || body != "E x|i:1, 2" {
					return fmt.Sprintf("operation %d: the custom error page must be written with its function calls evaluated, got %s", i, clip(rs[i], 200))
				}
			}
			return wantOK("E x|i:1, 2")(rs[4])
		}
		cs = append(cs, c)
	}
	// a nil function value takes the name like any other registration (and is not callable)
	for _, ty := range c20Types {
		rv := recvs[ty]
		ops := []string{opReg(ty, "nf", 9), opReg(ty, "nf", 0), opReg(ty, "nf", 9), opEvs("{{ "+rv.lit+".nf() }}", data), opReg(ty, "ok", 0), opReg(ty, "ok", 9), opEvs("{{ "+rv.varName+".ok().ok() }}", data)}
		c := histCase("nil_function_value", newTree(), ops, "Register(nil); Register(fn) under the same name; call; Register(fn); Register(nil) under that name; call")
		regErr := func(r string) string {
			if strings.HasPrefix(r, "REGERR") {
				return ""
			}
			return "a second registration of the name must be refused: " + clip(r, 120)
		}
		c.Oracle = expectResults(map[int]func(string) string{0: func(r string) string {
			if r == "REGOK" {
				return ""
			}
			return "the first registration must succeed: " + r
		}, 1: regErr, 2: regErr, 3: wantErr("nf"), 5: regErr})
		cs = append(cs, c)
	}
	// an array function that extends the slice it receives, first by a value of its own: the arguments arrive intact
	{
		ops := []string{opReg("arr", "tagged", 3),
			opEvs(`{{ [1].tagged(9) }}|{{ [1, 2, 3].tagged(7, 8) }}|{{ [].tagged("a", [1], {k: 2}) }}|{{ xs.tagged(xs[0], xs) }}|{{ xs }}|{{ [1, 2, 3, 4, 5].tagged(6, 7, 8, 9).len() }}`,
				gvMap("xs", gvList(gvStr("p"), gvStr("q"))))}
		c := histCase("array_function_extends_receiver", newTree(), ops, "Register(arr tagged); calls with arguments")
		c.Oracle = expectResults(map[int]func(string) string{1: wantOK("1, tag, 9|1, 2, 3, tag, 7, 8|tag, a, 1, {k: 2}|p, q, tag, p, p, q|p, q|10")})
		cs = append(cs, c)
	}
	// a function registered after a Template has already rendered is callable from its templates too
	{
		t := newTree()
		t.files["tpl/home.tw"] = "home"
		t.files["tpl/page.tw"] = `{{ "abc".late(1) }}`
		t.files["tpl/page2.tw"] = `@each(x in [1, 2]){{ x.later() }}@end{{ "abc".late() }}`
		ops := []string{opNew("tpl", ".tw", "", false), opStr("home", nil), opStr("page", nil), opReg("str", "late", 0), opStr("page", nil), opStr("page2", nil),
			opReg("int", "later", 0), opStr("page2", nil), opEvs(`{{ 5.later(1) }}`, nil), opReg("str", "late", 1), opStr("page", nil)}
		c := histCase("register_after_render", t, ops, "NewTemplate; String; Register; String of a page that calls it; Register; ...")
		c.Oracle = expectResults(map[int]func(string) string{0: wantNewOK, 1: wantOK("home"), 2: wantErr("late"), 3: func(r string) string {
			if r == "REGOK" {
				return ""
			}
			return "registration must succeed: " + r
		}, 4: wantOK("abc|i:1,"), 5: wantErr("later"), 7: wantOK("12abc|"), 8: wantOK("6"), 10: wantOK("abc|i:1,")})
		cs = append(cs, c)
	}
	// the same call site evaluated many times (loops) with arguments that are literals holding the loop variable at any depth
	{
		ops := []string{opReg("str", "echo", 0), opReg("int", "cnt", 0), opReg("arr", "wrap", 0),
			opEvs(`@each(x in [1, 2, 3]){{ "a".echo([[x]]) }};@end`, nil),
			opEvs(`@each(x in [1, 2]){{ "a".echo({a: {b: x}}, [x], x, [[[x]], "k"]) }};@end`, nil),
			opEvs(`@for(i = 0; i < 3; i++){{ "a".echo({ids: [i]}) }};@end`, nil),
			opEvs(`@each(x in ["p", "qq"]){{ 1.cnt([[x.len()]]) }}{{ "a".echo([[x.len()]], {k: [x]}) }};@end`, nil),
			opEvs(`@each(x in [1, 2]){{ [0].wrap([[x]], {a: {b: x}})[1][0][0] }}{{ [0].wrap({a: {b: x}})[1].a.b }};@end`, nil),
			opEvs(`@each(x in [1, 2])@each(y in [3, 4]){{ "a".echo([[x, y]]) }};@end@end`, nil),
			opEvs(`@each(x in [1, 2]){{ "a".echo([[1]], {a: {b: 2}}) }};@end`, nil)}
		c := histCase("nested_literal_args_in_loops", newTree(), ops, "Register; custom calls inside loops with nested literal arguments")
		c.Oracle = expectResults(map[int]func(string) string{3: wantOK("a|[[i:1,],],;a|[[i:2,],],;a|[[i:3,],],;"),
			4: wantOK("a|{a={b=i:1,},},[i:1,],i:1,[[[i:1,],],s:k,],;a|{a={b=i:2,},},[i:2,],i:2,[[[i:2,],],s:k,],;"),
			5: wantOK("a|{ids=[i:0,],},;a|{ids=[i:1,],},;a|{ids=[i:2,],},;"),
			6: wantOK("2a|[[i:1,],],{k=[s:p,],},;2a|[[i:2,],],{k=[s:qq,],},;"),
			7: wantOK("11;22;"),
			8: wantOK("a|[[i:1,i:3,],],;a|[[i:1,i:4,],],;a|[[i:2,i:3,],],;a|[[i:2,i:4,],],;"),
			9: wantOK("a|[[i:1,],],{a={b=i:2,},},;a|[[i:1,],],{a={b=i:2,},},;")})
		cs = append(cs, c)
	}
	// a bool / int / float receiver from data, from a literal and from another custom function
	{
		ops := []string{opReg("bool", "neg", 0), opReg("int", "plus", 0), opReg("float", "half", 0),
			opEvs(`{{ flag.neg() }}{{ flags[1].neg() }}{{ user.admin.neg() }}{{ true.neg().neg() }}{{ false.neg() }}`, gvMap("flag", gvBool(true), "flags", gvList(gvBool(false), gvBool(true)), "user", gvMap("admin", gvBool(true)))),
			opEvs(`{{ n.plus(1, 2) }}|{{ 5.plus() }}|{{ n.plus().plus(0) }}`, gvMap("n", gvInt(40))),
			opEvs(`{{ f.half() }}|{{ 3.0.half().half() }}`, gvMap("f", gvFloat(5)))}
		c := histCase("receiver_sources", newTree(), ops, "Register; calls on data, literals and results")
		c.Oracle = expectResults(map[int]func(string) string{3: wantOK("00011"), 4: wantOK("42|5|41"), 5: wantOK("2.5|0.75")})
		cs = append(cs, c)
	}
	return cs
}

func lastField(s string) string {
	f := strings.Fields(s)
	if len(f) == 0 {
		return ""
	}
	return f[len(f)-1]
}

// ---------------------------------------------------------------------------------------------
// C15

func casesC15(g *Gen) []*Case {
	var cs []*Case
	d1 := gvMap("who", gvStr("Ann"), "xs", gvList(gvInt(1), gvInt(2), gvInt(3)))
	d2 := gvMap("who", gvStr("Bo"), "xs", gvList(gvInt(1)))
	pool := []string{
		opStr("home", d1), opStr("home", d2), opStr("bad", d1), opStr("missing", nil), opStr("blog/post", nil), opStr("withlayout", d1), opStr("loops", nil), opStr("comp", d1),
		opResp("home", d1), opResp("bad", d1), opResp("missing", nil), opResp("blog/post", d2),
		opEvs("{{ who }}! @each(x in xs){{ x * 2 }}@end", d1), opEvs("{{ 1 + }}", nil), opEvs("{{ nosuch }}", nil), opEvs(`{{ [1, 2, 3, 4, 5].shuffle().len() }}{{ "a".echo(1) }}`, nil),
		opEvf("files/f.tw", d1), opEvf("files/none.tw", nil), opStr("sh", nil),
		// data that differ only in the numeric type of a value
		opStr("num", gvMap("n", gvInt(1), "ns", gvList(gvInt(2), gvInt(3)))), opStr("num", gvMap("n", gvFloat(1), "ns", gvList(gvFloat(2), gvFloat(3)))),
		opStr("num", gvMap("n", gvInt(1), "ns", gvList(gvInt(2), gvInt(3)))), opStr("num", gvMap("n", gvFloat(1), "ns", gvList(gvFloat(2), gvFloat(3)))),
		// literals with every special character in every context, loops whose bodies branch
		opStr("lits", d1), opStr("lits", d2), opStr("branchy", d1), opStr("branchy", d2), opStr("lits", d1), opStr("branchy", d1),
		// very deep pages that stay deep for most of their running time
		opStr("deep", d1), opStr("deep", d2), opStr("deepexpr", d1),
		// numbers of unusual magnitude, different ones in every call
		opStr("floats", gvMap("fs", gvList(gvFloat(1e21), gvFloat(2.5e-22), gvFloat(-3.75e30), gvFloat(1.0/3), gvFloat(math.Inf(1))))),
		opStr("floats", gvMap("fs", gvList(gvFloat(3e25), gvFloat(7.1e-30), gvFloat(9.5e22), gvFloat(2.0/3), gvFloat(math.Inf(-1))))),
		opStr("floats", gvMap("fs", gvList(gvFloat(1.7976931348623157e308), gvFloat(5e-324), gvFloat(-1e21), gvFloat(123456.789), gvFloat(math.MaxInt64)))),
	}
	n := g.scale(24, 400)
	for i := 0; i < n; i++ {
		t := c16Tree()
		t.files["tpl/components/c.tw"] = "<c>{{ t }}@slot</c>"
		t.files["tpl/comp.tw"] = `@each(x in xs)@component("~c", {t: who})@slot {{ x }}@end@end@end`
		t.files["tpl/sh.tw"] = `{{ [1, 2, 3, 4, 5, 6, 7, 8].shuffle().len() }}`
		t.files["tpl/num.tw"] = `@use("~l")@insert("b")@for(i = 0; i < 150; i++)@end<b>{{ n }}</b>{{ n / 2 }} @each(v in ns){{ v }},@end@end`
		t.files["tpl/components/lit.tw"] = `[{{ t }}|@slot]`
		t.files["tpl/deep.tw"] = strings.Repeat("@if(true)@each(e in [1])", 350) + "{{ who }}@for(i = 0; i < 400; i++)@if(i % 100 == 0){{ i }}@end@end" + strings.Repeat("@end@end", 350)
		t.files["tpl/floats.tw"] = `@for(r = 0; r < 40; r++)@each(f in fs){{ f }} {{ f.str() }} {{ [f] }};@end@end`
		t.files["tpl/deepexpr.tw"] = "{{ " + strings.Repeat("[", 600) + "who" + strings.Repeat("]", 600) + " }}{{ " + strings.Repeat("-(", 500) + "1" + strings.Repeat(")", 500) + " }}"
		t.files["tpl/lits.tw"] = `@use("~l")@insert("b"){{ "<b>&</b> 'q' \"dq\" <i>long literal text with & and < and > repeated & again</i>" }}` +
			`@each(x in xs){{ "<" + "&'" }}@component("~lit", {t: "<t>&\"'"})@slot{{ "s<&>'" }}@end@end@end{{ "<raw>&".raw() }}{{ true ? "<y>'" : "<n>" }}{{ {k: "<v>&"}.k }}{{ ["<e>'"][0] }}@end`
		t.files["tpl/branchy.tw"] = `@use("~l")@insert("b")@each(x in xs)@if(x == 2)<b>{{ x }}</b>@else e@end@for(j = 0; j < 0; j++)<i>{{ j }}</i>@else n@end` +
			`@if(x == 9)a{{ x }}b{{ x }}c@elseif(x == 1)one@else z@end@end@for(i = 0; i < 3; i++)@if(i == 1)<u>{{ i }}</u>@else o@end@each(q in [])<q>{{ q }}</q>@else m@end@end@end`
		cfg := []string{opNew("tpl", ".tw", "", false), opNew("tpl", ".tw", "err", false), opNew("tpl", ".tw", "", true)}[i%3]
		k := 3 + g.n(6)
		var work []string
		for j := 0; j < k; j++ {
			work = append(work, pool[g.n(len(pool))])
		}
		np := len(pool) - 6
		switch i % 6 {
		case 1: // the same page with data that differ in the numeric type only
			work = []string{pool[np-10], pool[np-9]}
		case 3: // first renders of pages made of literals and of branching loops overlap
			work = []string{pool[np-6], pool[np-5], pool[np-4], pool[np-3]}
		case 5:
			work = append(work, pool[np-10], pool[np-4], pool[np-9], pool[np-6])
		case 4: // many deep renders at the same moment
			work = []string{pool[np], pool[np+1], pool[np+2]}
		case 0: // numbers of unusual magnitude printed at the same moment
			work = []string{pool[np+3], pool[np+4], pool[np+5]}
		}
		G := []int{2, 4, 8, 16}[i%4]
		procs := []int{1, 2, 16}[i%3]
		rounds := g.scale(30, 100)
		fields := []string{t.term(), strconv.Itoa(G), strconv.Itoa(rounds), strconv.Itoa(procs), cfg, opReg("str", "echo", 0), "--"}
		fields = append(fields, work...)
		c := &Case{Kind: "conc", Fields: fields, Family: "concurrent_renders", NoModel: true,
			Note: fmt.Sprintf("%d goroutines x %d rounds, GOMAXPROCS=%d, setup %s, ops %s", G, rounds, procs, cfg, strings.Join(work, " "))}
		c.Tags = []string{fmt.Sprintf("G%d", G), fmt.Sprintf("P%d", procs)}
		c.Oracle = func(c *Case, impl string) string {
			if strings.HasPrefix(impl, "CONC ok") {
				return ""
			}
			return "concurrent calls did not behave like the same calls run alone: " + clip(impl, 600)
		}
		cs = append(cs, c)
		// the same operations, sequentially, against the model
		cs = append(cs, histCase("sequential_baseline", t, append([]string{cfg, opReg("str", "echo", 0)}, work...), "the operations of the workload, run alone"))
	}
	return cs
}
