package main

import (
	"fmt"
	"testing"

	textwire "github.com/textwire/textwire/v2"
)

func TestDebugTemplates(t *testing.T) {
	g := newGen(1, "quick")
	n := 0
	for i := 0; i < 600 && n < 12; i++ {
		sc := stdScope()
		src := g.template(sc, 3)
		_, err := textwire.EvaluateString(src, sc.data.DataMap())
		if err != nil && (contains(err.Error(), "expected next token") || contains(err.Error(), "no prefix")) {
			fmt.Printf("%q\n   %v\n", src, err)
			n++
		}
	}
}
func contains(a, b string) bool { return len(a) >= len(b) && (func() bool { for i := 0; i+len(b) <= len(a); i++ { if a[i:i+len(b)] == b { return true } }; return false })() }
