package main

// Random valid templates (single string programs), built from parts so that prefixes /
// deletions / swaps can be taken at lexeme boundaries.

import "strings"

type tb struct {
	g     *Gen
	parts []string
	off   int
	open  [][2]int // [start, end): a cut with start ≤ off < end is inside a construct
	sc    *Scope
	loop  int // nesting depth of loops (break / continue allowed)
	nvar  int
}

func (t *tb) emit(s string) {
	if s == "" {
		return
	}
	t.parts = append(t.parts, s)
	t.off += len(s)
}

func (t *tb) begin() int { return t.off }
func (t *tb) end(start int) {
	// the construct's last byte is at off-1: a prefix of length off is complete
	t.open = append(t.open, [2]int{start, t.off})
}

var textPieces = []string{"hello ", "<p>", "</p>", "\n", " ", "a-b", "x", "é", "}} ", "@ ", "1 < 2", "\r\n", "&amp;", "(", ")"}

func (t *tb) text() {
	t.emit(t.g.pick(textPieces))
}

func (t *tb) exprToks(e *E) {
	ts := e.toks(pLOWEST, 0, t.g)
	for i, x := range ts {
		if i > 0 {
			t.emit(" ")
		}
		t.emit(x)
	}
}

func (t *tb) braces(e *E) {
	t.emit("{{")
	s := t.begin()
	t.emit(" ")
	t.exprToks(e)
	t.emit(" ")
	t.emit("}}")
	t.end(s)
}

func (t *tb) cond() *E {
	g := t.g
	if g.chance(1, 3) {
		return g.leaf(t.sc, g.pick([]string{"bool", "int", "str", "float", "nil", "arr"}))
	}
	return g.expr(t.sc, "bool", 2)
}

func (t *tb) directiveOpen(kw string) int {
	t.emit(kw)
	s := t.begin()
	t.emit("(")
	return s
}

func (t *tb) body(depth int) {
	n := 1 + t.g.n(3)
	for i := 0; i < n; i++ {
		t.stmt(depth)
	}
}

func (t *tb) stmt(depth int) {
	g := t.g
	k := g.n(12)
	if depth <= 0 && k >= 4 && k <= 8 {
		k = g.n(4)
	}
	switch k {
	case 0, 1:
		t.text()
	case 2:
		t.braces(g.expr(t.sc, g.pick([]string{"int", "str", "bool", "float", "int"}), 2))
	case 3:
		// assignment to a fresh variable, then a read
		t.nvar++
		name := "v" + string(rune('a'+t.nvar%20))
		ty := g.pick([]string{"int", "str"})
		t.emit("{{")
		s := t.begin()
		t.emit(" " + name + " = ")
		t.exprToks(g.expr(t.sc, ty, 1))
		t.emit(" ")
		t.emit("}}")
		t.end(s)
		if _, ok := t.sc.vars[ty]; ok && !containsStr(t.sc.vars[ty], name) {
			// visible until the end of the enclosing block: keep it simple, use it right away
			t.braces(eVar(name))
		}
	case 4, 5:
		s := t.directiveOpen("@if")
		t.exprToks(t.cond())
		t.emit(")")
		t.body(depth - 1)
		for g.chance(1, 3) {
			t.emit("@elseif")
			t.emit("(")
			t.exprToks(t.cond())
			t.emit(")")
			t.body(depth - 1)
		}
		if g.chance(1, 2) {
			t.emit("@else")
			t.elseBody(depth - 1)
		}
		t.emit("@end")
		t.end(s)
	case 6:
		s := t.directiveOpen("@each")
		t.emit("el in ")
		t.exprToks(g.expr(t.sc, "arr", 1))
		t.emit(")")
		t.loop++
		t.sc.vars["int"] = append(t.sc.vars["int"], "el")
		t.body(depth - 1)
		if g.chance(1, 2) {
			t.braces(eDot(eVar("loop"), g.pick([]string{"index", "iter", "first", "last"})))
		}
		t.sc.vars["int"] = t.sc.vars["int"][:len(t.sc.vars["int"])-1]
		t.loop--
		if g.chance(1, 3) {
			t.emit("@else")
			t.elseBody(depth - 1)
		}
		t.emit("@end")
		t.end(s)
	case 7:
		s := t.directiveOpen("@for")
		t.emit("k = 0; k < " + g.pick([]string{"0", "1", "2", "3"}) + "; k++")
		t.emit(")")
		t.loop++
		t.sc.vars["int"] = append(t.sc.vars["int"], "k")
		t.body(depth - 1)
		t.sc.vars["int"] = t.sc.vars["int"][:len(t.sc.vars["int"])-1]
		t.loop--
		t.emit("@end")
		t.end(s)
	case 8:
		if t.loop > 0 {
			switch g.n(4) {
			case 0:
				t.emit("@break")
				t.afterBare()
			case 1:
				t.emit("@continue")
				t.afterBare()
			case 2:
				s := t.directiveOpen("@breakIf")
				t.exprToks(t.cond())
				t.emit(")")
				t.end(s)
			default:
				s := t.directiveOpen("@continueIf")
				t.exprToks(t.cond())
				t.emit(")")
				t.end(s)
			}
		} else {
			t.text()
		}
	case 9:
		t.emit("{{")
		s := t.begin()
		t.emit("--")
		t.emit(g.pick([]string{" note ", "", " {{ x }} ", "@if(", " -- ", "\n"}))
		t.emit("--}}")
		t.end(s)
	default:
		t.text()
	}
}

// text right after a directive without parentheses must not extend its keyword
func (t *tb) afterBare() {
	t.emit(t.g.pick([]string{" ", "\n", "<br>", "."}))
}

func (t *tb) elseBody(depth int) {
	t.afterBare()
	t.body(depth)
}

func containsStr(xs []string, s string) bool {
	for _, x := range xs {
		if x == s {
			return true
		}
	}
	return false
}

// templateParts returns the lexeme-level parts of a random valid template and a predicate
// telling whether a prefix of a given length ends inside a construct
func (g *Gen) templateParts(sc *Scope, depth int) ([]string, func(int) bool) {
	t := &tb{g: g, sc: sc}
	n := 1 + g.n(4)
	for i := 0; i < n; i++ {
		t.stmt(depth)
	}
	open := t.open
	return t.parts, func(off int) bool {
		for _, iv := range open {
			if iv[0] <= off && off < iv[1] {
				return true
			}
		}
		return false
	}
}

func (g *Gen) template(sc *Scope, depth int) string {
	parts, _ := g.templateParts(sc, depth)
	return strings.Join(parts, "")
}
