package main

// Families over template trees and histories of API calls: C06 (layouts), C07 (components),
// C13 (error lines and paths), C18 (names, faulty files).

import (
	"time"
	"fmt"
	"sort"
	"strconv"
	"strings"
)

type Tree struct {
	files map[string]string
	dirs  []string
	links []string          // dangling symlinks
	syms  map[string]string // symbolic links to regular files of the tree: path -> target path
}

func newTree() *Tree { return &Tree{files: map[string]string{}} }

func (t *Tree) term() string {
	var sb strings.Builder
	sb.WriteString("(")
	for _, d := range t.dirs {
		sb.WriteString("(" + hx(d) + " d)")
	}
	dirs := map[string]bool{}
	for _, p := range sortedKeys(t.files) {
		// parent directories are entries too
		parts := strings.Split(p, "/")
		for i := 1; i < len(parts); i++ {
			d := strings.Join(parts[:i], "/")
			if !dirs[d] && !containsStr(t.dirs, d) {
				dirs[d] = true
				sb.WriteString("(" + hx(d) + " d)")
			}
		}
		sb.WriteString("(" + hx(p) + " f " + hx(t.files[p]) + ")")
	}
	for _, l := range t.links {
		parts := strings.Split(l, "/")
		for i := 1; i < len(parts); i++ {
			d := strings.Join(parts[:i], "/")
			if !dirs[d] && !containsStr(t.dirs, d) {
				dirs[d] = true
				sb.WriteString("(" + hx(d) + " d)")
			}
		}
		sb.WriteString("(" + hx(l) + " x)")
	}
	for _, l := range sortedKeys(t.syms) {
		parts := strings.Split(l, "/")
		for i := 1; i < len(parts); i++ {
			d := strings.Join(parts[:i], "/")
			if !dirs[d] && !containsStr(t.dirs, d) {
				dirs[d] = true
				sb.WriteString("(" + hx(d) + " d)")
			}
		}
		sb.WriteString("(" + hx(l) + " l " + hx(t.syms[l]) + " " + hxOut(t.files[t.syms[l]]) + ")")
	}
	sb.WriteString(")")
	return sb.String()
}

func (t *Tree) clone() *Tree {
	n := newTree()
	for k, v := range t.files {
		n.files[k] = v
	}
	n.dirs = append(n.dirs, t.dirs...)
	n.links = append(n.links, t.links...)
	return n
}

func opNew(dir, ext, errPage string, debug bool) string {
	d := "0"
	if debug {
		d = "1"
	}
	return fmt.Sprintf("(NEW 0 %s %s %s %s)", hx(dir), hx(ext), hx(errPage), d)
}
func opNewNil() string                      { return "(NEW 1 - - - 0)" }
func opStr(name string, data *GV) string    { return "(STR " + hx(name) + " " + dataTerm(data) + ")" }
func opResp(name string, data *GV) string   { return "(RESP " + hx(name) + " " + dataTerm(data) + ")" }
func opEvs(src string, data *GV) string     { return "(EVS " + hx(src) + " " + dataTerm(data) + ")" }
func opEvf(path string, data *GV) string    { return "(EVF " + hx(path) + " " + dataTerm(data) + ")" }
func opEvfRel(path string, data *GV) string { return "(EVFR " + hx(path) + " " + dataTerm(data) + ")" }
func opReg(ty, name string, fid int) string { return fmt.Sprintf("(REG %s %s %d)", ty, hx(name), fid) }
func opReset() string                       { return "(RESET)" }
func opWrite(path, content string) string   { return "(WRITE " + hx(path) + " " + hx(content) + ")" }
func opRm(path string) string               { return "(RM " + hx(path) + ")" }

func dataTerm(d *GV) string {
	if d == nil {
		return "(M)"
	}
	return d.Term()
}

func histCase(family string, t *Tree, ops []string, note string) *Case {
	c := &Case{Kind: "hist", Fields: append([]string{t.term()}, ops...), Family: family}
	var sb strings.Builder
	for _, p := range sortedKeys(t.files) {
		sb.WriteString(fmt.Sprintf("--- %s ---\n%s\n", p, t.files[p]))
	}
	for _, l := range t.links {
		sb.WriteString("--- " + l + " -> (dangling symlink)\n")
	}
	sb.WriteString("ops: " + note)
	c.Note = sb.String()
	c.Timeout = 0
	return c
}

func results(impl string) []string { return strings.Split(impl, " | ") }

// expectResults: per operation index, a check of that operation's answer
func expectResults(checks map[int]func(string) string) func(*Case, string) string {
	return func(c *Case, impl string) string {
		rs := results(impl)
		var idx []int
		for i := range checks {
			idx = append(idx, i)
		}
		sort.Ints(idx)
		for _, i := range idx {
			if i >= len(rs) {
				return fmt.Sprintf("operation %d has no answer: %s", i, clip(impl, 200))
			}
			if why := checks[i](rs[i]); why != "" {
				return fmt.Sprintf("operation %d: %s", i, why)
			}
		}
		return ""
	}
}

func wantOK(out string) func(string) string {
	return func(r string) string {
		if r == "OK "+hxOut(out) {
			return ""
		}
		return fmt.Sprintf("expected output %q, got %s", out, describe(r))
	}
}

func wantErr(msgPart string) func(string) string {
	return func(r string) string {
		r = strings.TrimPrefix(r, "NEWERR ")
		f := strings.Fields(r)
		if len(f) >= 1 && (f[0] == "ERR" || f[0] == "OSERR") {
			if msgPart == "" || (len(f) >= 4 && strings.Contains(unhx(f[3]), msgPart)) {
				return ""
			}
			return fmt.Sprintf("expected an error mentioning %q, got %s", msgPart, describe(r))
		}
		return fmt.Sprintf("expected an error (%s), got %s", msgPart, describe(r))
	}
}

func wantNewOK(r string) string {
	if strings.HasPrefix(r, "NEWOK") {
		return ""
	}
	return "loading the templates failed: " + describe(strings.TrimPrefix(r, "NEWERR "))
}

// ---------------------------------------------------------------------------------------------
// C06

type reservePos int

const (
	posTop reservePos = iota
	posIf
	posEach
	posBoth
)

func casesC06(g *Gen) []*Case {
	var cs []*Case
	// loop control inside an insert block ends the block, not the layout's loop around the reserve
	{
		t := newTree()
		t.files["tpl/layouts/l.tw"] = `@each(q in [1, 2, 3])<@reserve("b")>!@end|@for(i = 0; i < 3; i++)(@reserve("c"))@end`
		t.files["tpl/p1.tw"] = `@use("~l")@insert("b"){{ q }}@if(q == 2)@break@end@end`
		t.files["tpl/p2.tw"] = `@use("~l")@insert("b"){{ q }}@continueIf(q == 2)x@end@insert("c"){{ i }}@breakIf(i == 0)y@end`
		t.files["tpl/p3.tw"] = `@use("~l")@insert("b")@continue@end@insert("c")@break@end`
		t.files["tpl/p4.tw"] = `@use("~l")@insert("b"){{ q }}@breakIf(q == 1)@end@insert("c")@if(i == 1)@continue@end{{ i }}@end`
		c := histCase("loop_control_in_insert", t, []string{opNew("tpl", ".tw", "", false), opStr("p1", nil), opStr("p2", nil), opStr("p3", nil), opStr("p4", nil)},
			"NewTemplate; pages whose insert blocks hold @break / @continue while the reserve sits in a loop of the layout")
		c.Oracle = expectResults(map[int]func(string) string{0: wantNewOK, 1: wantOK("<1>!<2>!<3>!|()()()"), 2: wantOK("<1x>!<2>!<3x>!|(0)(1y)(2y)"),
			3: wantOK("<>!<>!<>!|()()()"), 4: wantOK("<1>!<2>!<3>!|(0)()(2)")})
		cs = append(cs, c)
	}
	// a layout that holds a @use anywhere - in a branch that the data of the call never takes, in a loop
	// that makes no pass, behind a @break - is a layout that uses a layout: an error whatever the data
	for i, lay := range []string{`<m>@reserve("b")</m>@if(legacy)@use("~base")@end`, `@if(true)<m>@reserve("b")</m>@elseif(true)x@else@use("~base")@end`,
		`<m>@reserve("b")</m>@each(q in [])@use("~base")@end`, `<m>@reserve("b")</m>@for(i = 0; i < 0; i++)@use("~base")@end`,
		`<m>@reserve("b")</m>@each(q in [1])@break@use("~base")@end`, `@use("~base")<m>@reserve("b")</m>`, `<m>@reserve("b")</m>@if(false)@if(false)@use("~base")@end@end`} {
		t := newTree()
		t.files["tpl/layouts/base.tw"] = `<base>@reserve("b")</base>`
		t.files["tpl/layouts/main.tw"] = lay
		t.files["tpl/page.tw"] = "\n\n" + `@use("~main")@insert("b")hi@end`
		d := gvMap("legacy", gvBool(false))
		c := histCase("layout_uses_layout_anywhere", t, []string{opNew("tpl", ".tw", "", false), opStr("page", d), opStr("page", gvMap("legacy", gvBool(true)))},
			fmt.Sprintf("NewTemplate; String(page) with a layout whose @use sits in a dead branch (shape %d)", i))
		c.Oracle = func(c *Case, impl string) string {
			rs := results(impl)
			if len(rs) > 0 && strings.HasPrefix(rs[0], "NEWERR") {
				return ""
			}
			for _, r := range rs[1:] {
				if why := wantErr("not allowed in a layout")(r); why != "" {
					return why
				}
			}
			return ""
		}
		cs = append(cs, c)
	}
	// a layout that is missing from the layouts directory is missing, whatever lies beside the page
	{
		t := newTree()
		t.files["tpl/blog/post.tw"] = `@use("~main")@insert("b")x@end`
		t.files["tpl/blog/layouts/main.tw"] = `DECOY@reserve("b")`
		t.files["tpl/blog/main.tw"] = `DECOY2@reserve("b")`
		t.files["tpl/blog/~main.tw"] = `DECOY3@reserve("b")`
		t.files["tpl/main.tw"] = `DECOY4@reserve("b")`
		c := histCase("missing_layout_with_decoys", t, []string{opNew("tpl", ".tw", "", false)}, "NewTemplate; the layout ~main does not exist, files named main lie beside the page")
		c.Oracle = expectResults(map[int]func(string) string{0: wantErr("")})
		cs = append(cs, c)
		t2 := newTree()
		t2.files["tpl/docs/api/page.tw"] = `@use("shared/frame")@insert("b")y@end`
		t2.files["tpl/docs/api/shared/frame.tw"] = `DECOY@reserve("b")`
		t2.files["tpl/docs/shared/frame.tw"] = `DECOY2@reserve("b")`
		c = histCase("missing_layout_with_decoys", t2, []string{opNew("tpl", ".tw", "", false)}, "NewTemplate; the layout shared/frame does not exist below the template directory")
		c.Oracle = expectResults(map[int]func(string) string{0: wantErr("")})
		cs = append(cs, c)
	}
	// the name in @use (and in @component) is a path below the template directory: other spellings of the same path name the same file
	for i, sp := range []string{"/layouts/main", "./layouts/main", "layouts//main", "~/main", "layouts/./main", "layouts/../layouts/main", "//layouts///main", "x/../layouts/main"} {
		t := newTree()
		t.files["tpl/layouts/main.tw"] = `<t>@reserve("title")</t><m>@reserve("b")</m>`
		t.files["tpl/components/card.tw"] = `[{{ v }}|@slot]`
		t.files["tpl/home.tw"] = `@use("` + sp + `")@insert("title", "T")@insert("b")Hi@component("` + strings.Replace(strings.Replace(sp, "layouts", "components", -1), "main", "card", -1) + `", {v: 1})@slot s@end@end@end`
		c := histCase("layout_name_spellings", t, []string{opNew("tpl", ".tw", "", i%2 == 1), opStr("home", nil)}, "NewTemplate, String(home); the layout and the component are named "+sp)
		c.Oracle = expectResults(map[int]func(string) string{0: wantNewOK, 1: wantOK("<t>T</t><m>Hi[1| s]</m>")})
		cs = append(cs, c)
	}
	// the expression form of @insert takes a whole expression: ternaries, comparisons, arithmetic, calls, evaluated with the data of the call
	{
		data := gvMap("flag", gvBool(true), "off", gvBool(false), "n", gvInt(3), "name", gvStr("Ann"), "xs", gvList(gvInt(1), gvInt(2)))
		i := 0
		for expr, want := range map[string]string{
			`flag ? "A" : "B"`: "A", `off ? "A" : "B"`: "B", `!flag ? "A" : "B"`: "B", `n > 2 ? n * 2 : 0`: "6", `flag ? (n > 5 ? "x" : "y") : "z"`: "y", `off ? 1 : flag ? 2 : 3`: "2",
			`n + 1`: "4", `n == 3`: "1", `name + "!"`: "Ann!", `xs[1]`: "2", `name.upper()`: "ANN", `(flag ? 1 : 2)`: "1", `-n`: "-3", `xs.len() > 1 ? "many" : "one"`: "many",
			`n * 2 + 1`: "7", `n - 1 - 1`: "1", `name.len() == 3 ? name : "?"`: "Ann",
		} {
			t := newTree()
			t.files["tpl/layouts/l.tw"] = `[@reserve("a")|@reserve("b")]`
			t.files["tpl/p.tw"] = `@use("~l")@insert("a", ` + expr + `)@insert("b", "x")`
			c := histCase("insert_value_expressions", t, []string{opNew("tpl", ".tw", "", i%2 == 0), opStr("p", data)}, "NewTemplate, String(p); the insert's value is "+expr)
			c.Oracle = expectResults(map[int]func(string) string{0: wantNewOK, 1: wantOK("[" + want + "|x]")})
			cs = append(cs, c)
			i++
		}
	}
	// a tilde that is not the first character of a name is an ordinary character
	{
		t := newTree()
		t.files["tpl/base~v2.tw"] = `[L @reserve("b")]`
		t.files["tpl/layouts/v2.tw"] = `WRONG`
		t.files["tpl/baselayouts/v2.tw"] = `WRONG2`
		t.files["tpl/layouts/a~b.tw"] = `<@reserve("b")>`
		t.files["tpl/p1.tw"] = `@use("base~v2")@insert("b")x@end`
		t.files["tpl/p3.tw"] = `@use("~a~b")@insert("b")y@end`
		c := histCase("tilde_inside_names", t, []string{opNew("tpl", ".tw", "", false), opStr("p1", nil), opStr("p3", nil)}, "NewTemplate; layouts named base~v2 and ~a~b")
		c.Oracle = expectResults(map[int]func(string) string{0: wantNewOK, 1: wantOK("[L x]"), 2: wantOK("<y>")})
		cs = append(cs, c)
	}
	names := []string{"head", "main", "foot"}
	for i := 0; i < g.scale(1200, 30000); i++ {
		nres := g.n(4)
		flag := g.chance(2, 3)
		items := g.n(3)
		data := gvMap("flag", gvBool(flag), "v", gvInt(int64(g.n(9))), "who", gvStr(g.pick([]string{"Ann", "B<o>b", ""})))
		var its []*GV
		for k := 0; k < items; k++ {
			its = append(its, gvInt(int64(k+1)))
		}
		data.Keys = append(data.Keys, "items")
		data.Elems = append(data.Elems, gvList(its...))
		vInt := data.Elems[1].I
		who := data.Elems[2].S

		// the page: which reserves get an insert, in which form
		inserts := map[string]insOut{}
		var page strings.Builder
		dirSetting := g.pick([]string{"tpl", "tpl/", "./tpl", "views/site"})
		ext := g.pick([]string{".tw", ".tw.html", ".html"})
		layoutName := "layouts/base"
		if g.chance(1, 2) {
			page.WriteString(`@use("~base")`)
		} else {
			page.WriteString(`@use("layouts/base")`)
		}
		page.WriteString(g.pick([]string{"", "\nignored page text\n", " "}))
		for k := 0; k < nres; k++ {
			n := names[k]
			in := insOut{present: g.chance(3, 4)}
			if in.present {
				if g.chance(1, 2) {
					src := ""
					switch g.n(3) {
					case 0:
						src, in.out = "B-"+n, "B-"+n
					case 1:
						src, in.out = "[{{ v + 1 }}]", fmt.Sprintf("[%d]", vInt+1)
					default:
						src, in.out = "@if(flag)on@else"+" off@end", map[bool]string{true: "on", false: " off"}[flag]
					}
					page.WriteString(`@insert("` + n + `")` + src + "@end")
				} else {
					src := ""
					switch g.n(3) {
					case 0:
						src, in.out = `"T-`+n+`"`, "T-"+n
					case 1:
						src, in.out = "v * 2", strconv.FormatInt(vInt*2, 10)
					default:
						src, in.out = "who", who
					}
					page.WriteString(`@insert("` + n + `", ` + src + ")")
				}
				page.WriteString(g.pick([]string{"", "\n", " between "}))
			}
			inserts[n] = in
		}
		// the layout
		var lay strings.Builder
		lay.WriteString("<L>")
		for k := 0; k < nres; k++ {
			res := `@reserve("` + names[k] + `")`
			switch reservePos(g.n(4)) {
			case posTop:
				lay.WriteString("(" + res + ")")
			case posIf:
				lay.WriteString("@if(flag)<" + res + ">@end")
			case posEach:
				lay.WriteString("@each(it in items){{ it }}:" + res + ";@end")
			default:
				lay.WriteString("@each(it in items)@if(flag)" + res + "@else-@end@end")
			}
			lay.WriteString(g.pick([]string{"", " ", "\n"}))
		}
		lay.WriteString("{{ who }}</L>")
		dir := strings.Trim(strings.TrimPrefix(dirSetting, "./"), "/")
		t := newTree()
		t.files[dir+"/"+layoutName+ext] = lay.String()
		t.files[dir+"/home"+ext] = page.String()
		ops := []string{opNew(dirSetting, ext, "", false), opStr("home", data), opStr("layouts/base", data)}
		c := histCase("layout_render", t, ops, "NewTemplate; String(home); String(layouts/base)")
		layoutText := lay.String()
		c.Oracle = expectResults(map[int]func(string) string{
			0: wantNewOK,
			1: wantOK(renderLayout(layoutText, inserts, flag, items, who)),
			2: func(r string) string {
				if nres == 0 {
					return "" // a layout without reserves is an ordinary page
				}
				return wantErr("template not found")(r)
			},
		})
		cs = append(cs, c)
	}
	// error situations
	base := func() *Tree {
		t := newTree()
		t.files["tpl/layouts/base.tw"] = `<L>@reserve("main")</L>`
		return t
	}
	{
		t := base()
		t.files["tpl/p.tw"] = `@use("~base")@insert("main")M@end@insert("nosuch")X@end`
		c := histCase("undefined_insert", t, []string{opNew("tpl", ".tw", "", false)}, "NewTemplate")
		c.Oracle = expectResults(map[int]func(string) string{0: wantErr("nosuch")})
		cs = append(cs, c)
	}
	{
		t := newTree()
		t.files["tpl/layouts/plain.tw"] = `<L>no reserves</L>`
		t.files["tpl/p.tw"] = `@use("~plain")@insert("main")M@end`
		c := histCase("undefined_insert", t, []string{opNew("tpl", ".tw", "", false)}, "NewTemplate (layout without any reserve)")
		c.Oracle = expectResults(map[int]func(string) string{0: wantErr("main")})
		cs = append(cs, c)
	}
	{
		t := base()
		t.files["tpl/p.tw"] = `@use("~base")@insert("main")M@end@insert("main")N@end`
		c := histCase("duplicate_insert", t, []string{opNew("tpl", ".tw", "", false)}, "NewTemplate")
		c.Oracle = expectResults(map[int]func(string) string{0: wantErr("main")})
		cs = append(cs, c)
	}
	{
		t := newTree()
		t.files["tpl/p.tw"] = `@use("~gone")@insert("main")M@end`
		c := histCase("missing_layout", t, []string{opNew("tpl", ".tw", "", false)}, "NewTemplate")
		c.Oracle = expectResults(map[int]func(string) string{0: wantErr("")})
		cs = append(cs, c)
	}
	{
		t := base()
		t.files["tpl/layouts/outer.tw"] = `<O>@reserve("x")</O>`
		t.files["tpl/layouts/base.tw"] = `@use("~outer")<L>@reserve("main")</L>`
		t.files["tpl/p.tw"] = `@use("~base")@insert("main")M@end`
		c := histCase("nested_layout", t, []string{opNew("tpl", ".tw", "", false), opStr("p", nil)}, "NewTemplate; String(p)")
		c.Oracle = func(c *Case, impl string) string {
			rs := results(impl)
			for _, r := range rs {
				if strings.HasPrefix(strings.TrimPrefix(r, "NEWERR "), "ERR") {
					return ""
				}
			}
			return "a layout that itself uses a layout must be reported as an error: " + clip(impl, 200)
		}
		cs = append(cs, c)
	}
	// a reserve evaluated several times (inside a loop of the layout): the insert is evaluated each
	// time, with the variables of that pass
	for _, form := range []struct{ ins, want string }{
		{`@insert("row")<{{ it }}:{{ loop.index }}>@end`, "[<1:0><2:1><3:2>]"},
		{`@insert("row", it * 10)`, "[102030]"},
		{`@insert("row")@if(it == 2)two@else{{ it }}@end,@end`, "[1,two,3,]"},
	} {
		t := newTree()
		t.files["tpl/layouts/rows.tw"] = `[@each(it in items)@reserve("row")@end]`
		t.files["tpl/p.tw"] = `@use("~rows")` + form.ins
		d := gvMap("items", gvList(gvInt(1), gvInt(2), gvInt(3)))
		c := histCase("reserve_in_loop", t, []string{opNew("tpl", ".tw", "", false), opStr("p", d), opStr("p", d)}, "NewTemplate; String(p) twice")
		c.Oracle = expectResults(map[int]func(string) string{0: wantNewOK, 1: wantOK(form.want), 2: wantOK(form.want)})
		cs = append(cs, c)
	}
	// reserves in every kind of block of the layout, including the @else parts
	{
		t := newTree()
		t.files["tpl/layouts/e.tw"] = `@each(q in none)x@else<@reserve("a")>@end@for(i = 0; i < 0; i++)y@else[@reserve("b")]@end@if(false)z@elseif(false)w@else{@reserve("c")}@end@if(false)v@elseif(true)(@reserve("d"))@end`
		t.files["tpl/p.tw"] = `@use("~e")@insert("a")A@end@insert("b", "B")@insert("c")C@end@insert("d", 4)`
		t.files["tpl/q.tw"] = `@use("~e")@insert("c")only c@end`
		c := histCase("reserve_in_else_blocks", t, []string{opNew("tpl", ".tw", "", false), opStr("p", gvMap("none", gvList())), opStr("q", gvMap("none", gvList()))}, "NewTemplate; String(p); String(q)")
		c.Oracle = expectResults(map[int]func(string) string{0: wantNewOK, 1: wantOK("<A>[B]{C}(4)"), 2: wantOK("<>[]{only c}()")})
		cs = append(cs, c)
	}
	// several pages share one layout whose reserves sit in nested blocks: every page shows its own inserts
	// (and nothing where it has none), in whatever order the pages are rendered
	{
		t := newTree()
		t.files["tpl/layouts/s.tw"] = `<@reserve("top")>@if(true)[@reserve("mid")]@end@each(q in [1, 2])(@reserve("row"))@end`
		t.files["tpl/a.tw"] = `@use("~s")@insert("top")a-top@end@insert("mid")a-mid@end@insert("row")a{{ q }}@end`
		t.files["tpl/b.tw"] = `@use("~s")@insert("top", "b-top")`
		t.files["tpl/c.tw"] = `@use("~s")@insert("mid", "c-mid")@insert("row", q * 10)`
		wa, wb, wc := "<a-top>[a-mid](a1)(a2)", "<b-top>[]()()", "<>[c-mid](10)(20)"
		for _, ord := range [][]string{{"a", "b", "c"}, {"c", "b", "a"}, {"b", "a", "b", "c", "a"}} {
			ops := []string{opNew("tpl", ".tw", "", false)}
			checks := map[int]func(string) string{0: wantNewOK}
			for _, n := range ord {
				checks[len(ops)] = wantOK(map[string]string{"a": wa, "b": wb, "c": wc}[n])
				ops = append(ops, opStr(n, nil))
			}
			c := histCase("pages_share_layout", t, ops, "NewTemplate; String of "+strings.Join(ord, ", "))
			c.Oracle = expectResults(checks)
			cs = append(cs, c)
		}
	}
	// names with dots in them (layout, page), next to a decoy file without the extension
	for _, ext := range []string{".tw", ".tw.html"} {
		t := newTree()
		t.files["tpl/layouts/base.v2"+ext] = `<v2>@reserve("main")</v2>`
		t.files["tpl/layouts/base.v2"] = `<DECOY>@reserve("main")</DECOY>`
		t.files["tpl/home.v1"+ext] = `@use("~base.v2")@insert("main")M@end`
		t.files["tpl/other.page"+ext] = `@use("layouts/base.v2")@insert("main", "N")`
		c := histCase("dotted_names", t, []string{opNew("tpl", ext, "", false), opStr("home.v1", nil), opStr("other.page", nil)}, "NewTemplate; String(home.v1); String(other.page)")
		c.Oracle = expectResults(map[int]func(string) string{0: wantNewOK, 1: wantOK("<v2>M</v2>"), 2: wantOK("<v2>N</v2>")})
		cs = append(cs, c)
	}
	{
		t := newTree()
		t.files["tpl/layouts/base.v2"] = `<DECOY>@reserve("main")</DECOY>`
		t.files["tpl/home.tw"] = `@use("~base.v2")@insert("main")M@end`
		c := histCase("dotted_names", t, []string{opNew("tpl", ".tw", "", false)}, "NewTemplate (only a file without the extension exists for the layout)")
		c.Oracle = expectResults(map[int]func(string) string{0: wantErr("")})
		cs = append(cs, c)
	}
	// falsy expression inserts still fill the reserve
	{
		t := newTree()
		t.files["tpl/layouts/base.tw"] = `<b>@reserve("count")</b>@if(true)<i>@reserve("flag")</i>@end<u>@reserve("z")</u>`
		t.files["tpl/p.tw"] = `@use("~base")@insert("count", items.len())@insert("flag", admin)@insert("z", 0.0)`
		for _, d := range []*GV{gvMap("items", gvList(), "admin", gvBool(false)), gvMap("items", gvList(gvInt(1)), "admin", gvBool(true))} {
			n, a := "0", "0"
			if len(d.Elems[0].Elems) > 0 {
				n, a = "1", "1"
			}
			c := histCase("falsy_expression_insert", t, []string{opNew("tpl", ".tw", "", false), opStr("p", d)}, "NewTemplate; String(p)")
			c.Oracle = expectResults(map[int]func(string) string{0: wantNewOK, 1: wantOK("<b>" + n + "</b><i>" + a + "</i><u>0.0</u>")})
			cs = append(cs, c)
		}
	}
	return cs
}

func min(a, b int) int {
	if a < b {
		return a
	}
	return b
}

type insOut struct {
	present bool
	out     string
}

// renderLayout renders the layout text by substitution (the statement of C06): the layout uses
// only the constructs produced above, so a tiny substitution evaluator is enough
func renderLayout(layout string, ins map[string]insOut, flag bool, items int, who string) string {
	var out strings.Builder
	var rec func(s string, it int)
	rec = func(s string, it int) {
		for len(s) > 0 {
			switch {
			case strings.HasPrefix(s, `@reserve("`):
				end := strings.Index(s, `")`)
				name := s[len(`@reserve("`):end]
				if in, ok := ins[name]; ok && in.present {
					out.WriteString(in.out)
				}
				s = s[end+2:]
			case strings.HasPrefix(s, "@if(flag)"):
				body, rest := splitBlock(s[len("@if(flag)"):])
				thenB, elseB := body, ""
				if i := topLevelElse(body); i >= 0 {
					thenB, elseB = body[:i], body[i+len("@else"):]
				}
				if flag {
					rec(thenB, it)
				} else {
					rec(elseB, it)
				}
				s = rest
			case strings.HasPrefix(s, "@each(it in items)"):
				body, rest := splitBlock(s[len("@each(it in items)"):])
				for k := 1; k <= items; k++ {
					rec(body, k)
				}
				s = rest
			case strings.HasPrefix(s, "{{ it }}"):
				out.WriteString(strconv.Itoa(it))
				s = s[len("{{ it }}"):]
			case strings.HasPrefix(s, "{{ who }}"):
				out.WriteString(who)
				s = s[len("{{ who }}"):]
			default:
				out.WriteByte(s[0])
				s = s[1:]
			}
		}
	}
	rec(layout, 0)
	return out.String()
}

// splitBlock: the body up to the matching @end, and what follows it
func splitBlock(s string) (string, string) {
	depth := 0
	for i := 0; i < len(s); i++ {
		if strings.HasPrefix(s[i:], "@if(") || strings.HasPrefix(s[i:], "@each(") {
			depth++
		}
		if strings.HasPrefix(s[i:], "@end") {
			if depth == 0 {
				return s[:i], s[i+4:]
			}
			depth--
		}
	}
	return s, ""
}

func topLevelElse(s string) int {
	depth := 0
	for i := 0; i < len(s); i++ {
		if strings.HasPrefix(s[i:], "@if(") || strings.HasPrefix(s[i:], "@each(") {
			depth++
		}
		if strings.HasPrefix(s[i:], "@end") {
			depth--
		}
		if depth == 0 && strings.HasPrefix(s[i:], "@else") && !strings.HasPrefix(s[i:], "@elseif") {
			return i
		}
	}
	return -1
}

// ---------------------------------------------------------------------------------------------
// C07

type compDef struct {
	name   string // file under components/
	src    string
	slots  []string // declared slot names ("" = default)
	render func(args map[string]string, show bool, slots map[string]string) string
}

var compDefs = []compDef{
	{name: "box", src: `<b>{{ t }}:@slot|@slot("f")</b>@if(show)S@end`, slots: []string{"", "f"},
		render: func(a map[string]string, show bool, sl map[string]string) string {
			s := "<b>" + a["t"] + ":" + sl[""] + "|" + sl["f"] + "</b>"
			if show {
				s += "S"
			}
			return s
		}},
	{name: "tag", src: `<i>{{ t }}</i>`, slots: nil,
		render: func(a map[string]string, show bool, sl map[string]string) string { return "<i>" + a["t"] + "</i>" }},
	{name: "wrap", src: "[@slot(\"head\")]\n@if(show){{ t }}@else-@end\n[@slot]", slots: []string{"head", ""},
		render: func(a map[string]string, show bool, sl map[string]string) string {
			m := "-"
			if show {
				m = a["t"]
			}
			return "[" + sl["head"] + "]\n" + m + "\n[" + sl[""] + "]"
		}},
}

// one use of a component: source text and expected rendering given the loop value x (or -1)
func (g *Gen) compUse(x int, who string) (string, string) {
	cd := compDefs[g.n(len(compDefs))]
	show := g.chance(1, 2)
	var tSrc, tVal string
	switch g.n(4) {
	case 0:
		tVal = g.pick([]string{"one", "two", "a b"})
		tSrc = `"` + tVal + `"`
	case 1:
		tSrc, tVal = "who", who
	case 2:
		tSrc, tVal = `who + "!"`, who+"!"
	default:
		if x >= 0 {
			tSrc, tVal = "x * 10", strconv.Itoa(x*10)
		} else {
			tSrc, tVal = "7 + 1", "8"
		}
	}
	src := `@component("~` + cd.name + `", {t: ` + tSrc + `, show: ` + strconv.FormatBool(show) + `})`
	if g.chance(1, 6) {
		src = `@component("components/` + cd.name + `", {show: ` + strconv.FormatBool(show) + `, t: ` + tSrc + `})`
	}
	slots := map[string]string{}
	if len(cd.slots) > 0 && g.chance(3, 4) {
		var sb strings.Builder
		for _, sn := range cd.slots {
			if !g.chance(2, 3) {
				continue
			}
			body, out := "", ""
			switch g.n(4) {
			case 0:
				body, out = "D"+strconv.Itoa(g.n(9)), ""
				out = body
			case 1:
				body, out = "{{ who }}", who
			case 2:
				if x >= 0 {
					body, out = "<{{ x }}>", "<"+strconv.Itoa(x)+">"
				} else {
					body, out = "<n>", "<n>"
				}
			default:
				body, out = "@if(true)y@end", "y"
			}
			if sb.Len() == 0 {
				// white space may stand between the header and the first slot
				sb.WriteString(g.pick([]string{"", "", " ", "\n  ", "\r\n\t"}))
			}
			if sn == "" {
				sb.WriteString("@slot" + " " + body + "@end")
				slots[sn] = " " + out
			} else {
				sb.WriteString(`@slot("` + sn + `")` + body + "@end")
				slots[sn] = out
			}
			// between the slots of a use (and before the closing @end): white space and comments, in any number
			sb.WriteString(g.pick([]string{"", "", "", " ", "\n", "{{-- c --}}", " {{-- c --}} ", "\n{{-- a --}}\n{{-- b --}}\n", "{{-- slot x end --}}", "\n  {{-- c --}}"}))
		}
		if strings.Contains(sb.String(), "@slot") {
			src += sb.String() + "@end"
		}
	}
	return src, cd.render(map[string]string{"t": tVal}, show, slots)
}

func compTree() *Tree {
	t := newTree()
	for _, cd := range compDefs {
		t.files["tpl/components/"+cd.name+".tw"] = cd.src
	}
	return t
}

func casesC07(g *Gen) []*Case {
	var cs []*Case
	// one component file named with several spellings on one page: every use renders, with its own argument and slot
	{
		t := newTree()
		t.files["tpl/components/card.tw"] = `[{{ t }}@slot]`
		t.files["tpl/card~x.tw"] = `(c)`
		t.files["tpl/components/x.tw"] = `WRONGC`
		t.files["tpl/p1.tw"] = `@component("components/card", {t: 1})@slot a@end@end@component("~card", {t: 2})@slot b@end@end@component("components//card", {t: 3})@component("./components/card", {t: 4})@slot c@end@end`
		t.files["tpl/p2.tw"] = `@component("~card", {t: 1})@component("/components/card", {t: 2})@slot z@end@end`
		t.files["tpl/p3.tw"] = `@component("components/../components/card", {t: 1})@component("~card", {t: 2})@slot z@end@end`
		t.files["tpl/p4.tw"] = `@each(x in [1, 2])@component("components/./card", {t: x})@component("~card", {t: x + 5})@slot s@end@end;@end`
		t.files["tpl/p5.tw"] = `@component("card~x")`
		c := histCase("component_name_spellings", t, []string{opNew("tpl", ".tw", "", false), opStr("p1", nil), opStr("p2", nil), opStr("p3", nil), opStr("p4", nil), opStr("p5", nil)},
			"NewTemplate; pages that name one component file in several ways")
		c.Oracle = expectResults(map[int]func(string) string{0: wantNewOK, 1: wantOK("[1 a][2 b][3][4 c]"), 2: wantOK("[1][2 z]"), 3: wantOK("[1][2 z]"),
			4: wantOK("[1][6 s];[2][7 s];"), 5: wantOK("(c)")})
		cs = append(cs, c)
	}
	// two uses of one component whose slot bodies read alike when printed back (1.0 / 1, an escaped block / a block,
	// redundant parentheses): each use renders its own body
	{
		t := newTree()
		t.files["tpl/c.tw"] = `[@slot]`
		t.files["tpl/n.tw"] = `<@slot("a")|@slot>`
		t.files["tpl/p1.tw"] = `@component("c")@slot{{ 10.0 / 4.0 }}@end@end|@component("c")@slot{{ 10 / 4 }}@end@end`
		t.files["tpl/p2.tw"] = `@component("c")@slot\{{ x }}@end@end|@component("c")@slot{{ x }}@end@end`
		t.files["tpl/p3.tw"] = `@component("c")@slot{{ 1.0 }}@end@end|@component("c")@slot{{ 1 }}@end@end|@component("c")@slot{{ 1.00 }}@end@end`
		t.files["tpl/p4.tw"] = `@component("c")@slot{{ (1 + 2) * 3 }}@end@end|@component("c")@slot{{ 1 + 2 * 3 }}@end@end|@component("c")@slot{{ 1 + (2 * 3) }}@end@end`
		t.files["tpl/p5.tw"] = `@each(k in [1, 2])@component("n")@slot("a"){{ 2.0 }}@end@slot{{ k }}@end@end@component("n")@slot("a"){{ 2 }}@end@slot\{{ k }}@end@end;@end`
		t.files["tpl/p6.tw"] = `@component("c")@slot{{ x.str() }}@end@end|@component("c")@slot{{ (x).str() }}@end@end|@component("c")@slot{{ 07 }}@end@end|@component("c")@slot{{ 7 }}@end@end`
		d := gvMap("x", gvInt(7))
		c := histCase("slot_bodies_that_print_alike", t, []string{opNew("tpl", ".tw", "", false), opStr("p1", d), opStr("p2", d), opStr("p3", d), opStr("p4", d), opStr("p5", d), opStr("p6", d)},
			"NewTemplate; pages with uses of one component whose slot bodies differ only in spelling")
		c.Oracle = expectResults(map[int]func(string) string{0: wantNewOK, 1: wantOK("[2.5]|[2]"), 2: wantOK("[{{ x }}]|[7]"), 3: wantOK("[1.0]|[1]|[1.0]"),
			4: wantOK("[9]|[7]|[7]"), 5: wantOK("<2.0|1><2|{{ k }}>;<2.0|2><2|{{ k }}>;"), 6: wantOK("[7]|[7]|[7]|[7]")})
		cs = append(cs, c)
	}
	// a component is a scope of its own whether or not it gets arguments: nothing it assigns (file or slot bodies) reaches the page
	{
		t := newTree()
		t.files["tpl/inc.tw"] = `{{ n = n + 1 }}<{{ n }}>`
		t.files["tpl/w.tw"] = `[@slot]`
		t.files["tpl/fresh.tw"] = `{{ fresh = 1 }}f`
		t.files["tpl/p1.tw"] = `{{ n = 0 }}@component("inc")@component("inc"){{ n }}`
		t.files["tpl/p2.tw"] = `{{ n = 0 }}@each(x in xs)@component("inc", {})@end{{ n }}`
		t.files["tpl/p3.tw"] = `@component("w")@slot{{ k = 5 }}{{ k }}@end@end{{ k }}`
		t.files["tpl/p4.tw"] = `@component("fresh"){{ fresh }}`
		t.files["tpl/p5.tw"] = `{{ n = 0 }}@component("w")@slot{{ n = 9 }}{{ n }}@end@end{{ n }}`
		t.files["tpl/p6.tw"] = `@component("fresh"){{ fresh = "s" }}{{ fresh }}`
		d := gvMap("xs", gvList(gvInt(1), gvInt(2), gvInt(3)))
		c := histCase("component_without_arguments_is_a_scope", t, []string{opNew("tpl", ".tw", "", false), opStr("p1", d), opStr("p2", d), opStr("p3", d), opStr("p4", d), opStr("p5", d), opStr("p6", d)},
			"NewTemplate; pages whose components (no arguments, or {}) assign names")
		c.Oracle = expectResults(map[int]func(string) string{0: wantNewOK, 1: wantOK("<1><1>0"), 2: wantOK("<1><1><1>0"), 3: wantErr("'k'"), 4: wantErr("'fresh'"), 5: wantOK("[9]0"), 6: wantOK("fs")})
		cs = append(cs, c)
	}
	for i := 0; i < g.scale(1500, 40000); i++ {
		who := g.pick([]string{"Ann", "Bo", ""})
		data := gvMap("who", gvStr(who), "flag", gvBool(g.chance(1, 2)), "xs", gvList(gvInt(1), gvInt(2), gvInt(3)))
		flag := data.Elems[1].B
		t := compTree()
		var page, want strings.Builder
		n := 1 + g.n(4)
		for k := 0; k < n; k++ {
			sep := g.pick([]string{"|", "\n", "<hr>", "a"})
			switch g.n(4) {
			case 0, 1:
				s, w := g.compUse(-1, who)
				page.WriteString(s + sep)
				want.WriteString(w + sep)
			case 2:
				s, _ := g.compUse(0, who)
				// the same use evaluated for every element: re-render per element
				page.WriteString("@each(x in xs)" + s + ";@end" + sep)
				for x := 1; x <= 3; x++ {
					want.WriteString(renderUseWith(s, x, who) + ";")
				}
				want.WriteString(sep)
			default:
				s, w := g.compUse(-1, who)
				page.WriteString("@if(flag)" + s + "@else" + " no@end" + sep)
				if flag {
					want.WriteString(w + sep)
				} else {
					want.WriteString(" no" + sep)
				}
			}
		}
		ops := []string{opNew("tpl", ".tw", "", false), opStr("page", data)}
		if g.chance(1, 3) {
			// the page is a layout user: components inside insert blocks
			t.files["tpl/layouts/l.tw"] = `{@reserve("body")}`
			t.files["tpl/page.tw"] = `@use("~l")@insert("body")` + page.String() + "@end"
			c := histCase("components_in_insert", t, ops, "NewTemplate; String(page)")
			c.Oracle = expectResults(map[int]func(string) string{0: wantNewOK, 1: wantOK("{" + want.String() + "}")})
			cs = append(cs, c)
		} else {
			t.files["tpl/page.tw"] = page.String()
			c := histCase("components_in_page", t, ops, "NewTemplate; String(page)")
			c.Oracle = expectResults(map[int]func(string) string{0: wantNewOK, 1: wantOK(want.String())})
			cs = append(cs, c)
		}
	}
	// arguments are evaluated at the place of use, in the caller's scope
	{
		t := compTree()
		t.files["tpl/components/pair.tw"] = `{{ left }} {{ right }}`
		t.files["tpl/page.tw"] = `@component("~pair", {left: right, right: left})|@component("~tag", {t: t + "x"})`
		d := gvMap("left", gvStr("L"), "right", gvStr("R"), "t", gvStr("T"))
		c := histCase("args_in_caller_scope", t, []string{opNew("tpl", ".tw", "", false), opStr("page", d)}, "NewTemplate; String(page)")
		c.Oracle = expectResults(map[int]func(string) string{0: wantNewOK, 1: wantOK("R L|<i>Tx</i>")})
		cs = append(cs, c)
	}
	// load-time errors name the component
	errs := []struct{ fam, page, part string }{
		{"undeclared_slot", `@component("~tag", {t: "x"})@slot("nosuch")B@end@end`, "tag"},
		{"undeclared_slot", `@component("~tag", {t: "x"})@slot B@end@end`, "tag"},
		{"duplicate_slot", `@component("~box", {t: "x", show: true})@slot("f")A@end@slot("f")B@end@end`, "box"},
		{"duplicate_slot", `@component("~box", {t: "x", show: true})@slot A@end@slot B@end@end`, "box"},
		// the same slot twice with another one in between, three times, and in the other order
		{"duplicate_slot_apart", `@component("~box", {t: "x", show: true})@slot("f")A@end@slot M@end@slot("f")B@end@end`, "box"},
		{"duplicate_slot_apart", `@component("~box", {t: "x", show: true})@slot A@end@slot("f")M@end@slot B@end@end`, "box"},
		{"duplicate_slot_apart", `@component("~wrap", {t: "x", show: true})@slot("head")A@end@slot M@end@slot("head")B@end@slot N@end@end`, "wrap"},
		{"duplicate_slot_apart", `@component("~wrap", {t: "x", show: false})
  @slot one @end
  @slot("head") H @end
  @slot two @end
@end`, "wrap"},
		{"duplicate_slot_apart", `@component("~box", {t: "x", show: true})@slot("f")A@end@slot M@end@slot("f")B@end@slot("f")C@end@end`, "box"},
		{"missing_component", `a@component("~gone", {t: "x"})`, "gone"},
		{"missing_component", `@if(true)@component("components/none")@end`, "none"},
	}
	for _, e := range errs {
		t := compTree()
		t.files["tpl/page.tw"] = e.page
		c := histCase(e.fam, t, []string{opNew("tpl", ".tw", "", false)}, "NewTemplate")
		c.Oracle = expectResults(map[int]func(string) string{0: wantErr(e.part)})
		cs = append(cs, c)
	}
	return cs
}

// renderUseWith re-renders a component use source for loop value x by interpreting the small
// fragment language produced by compUse
func renderUseWith(src string, x int, who string) string {
	// component name
	name := ""
	for _, cd := range compDefs {
		if strings.Contains(src, `"~`+cd.name+`"`) || strings.Contains(src, `"components/`+cd.name+`"`) {
			name = cd.name
		}
	}
	var cd compDef
	for _, c := range compDefs {
		if c.name == name {
			cd = c
		}
	}
	show := strings.Contains(src, "show: true")
	tVal := ""
	switch {
	case strings.Contains(src, "t: x * 10"):
		tVal = strconv.Itoa(x * 10)
	case strings.Contains(src, `t: who + "!"`):
		tVal = who + "!"
	case strings.Contains(src, "t: who"):
		tVal = who
	case strings.Contains(src, "t: 7 + 1"):
		tVal = "8"
	default:
		i := strings.Index(src, `t: "`)
		j := strings.Index(src[i+4:], `"`)
		tVal = src[i+4 : i+4+j]
	}
	slots := map[string]string{}
	rest := src
	for {
		i := strings.Index(rest, "@slot")
		if i < 0 {
			break
		}
		rest = rest[i+5:]
		sn := ""
		pre := ""
		if strings.HasPrefix(rest, `("`) {
			j := strings.Index(rest, `")`)
			sn = rest[2:j]
			rest = rest[j+2:]
		} else {
			pre = " "
			rest = rest[1:]
		}
		// body up to its @end (bodies contain at most one nested @if … @end)
		body, after := splitBlock(rest)
		rest = after
		out := body
		out = strings.ReplaceAll(out, "{{ who }}", who)
		out = strings.ReplaceAll(out, "<{{ x }}>", "<"+strconv.Itoa(x)+">")
		out = strings.ReplaceAll(out, "@if(true)y@end", "y")
		slots[sn] = pre + out
	}
	return cd.render(map[string]string{"t": tVal}, show, slots)
}

// ---------------------------------------------------------------------------------------------
// C13

type fault struct {
	kind, src, msgPart string
}

var evalFaults = []fault{
	{"undefined_identifier", "{{ nosuch }}", "nosuch"},
	{"undefined_identifier", "@if(nosuch)a@end", "nosuch"},
	{"mistyped_operand", `{{ 1 + "a" }}`, "type mismatch"},
	{"mistyped_operand", `{{ -"a" }}`, "prefix operator"},
	{"unknown_function", "{{ 1.nosuchfn() }}", "nosuchfn"},
	{"unknown_property", "{{ {a: 1}.zz }}", "zz"},
	{"division_by_zero", "{{ 1 / 0 }}", "division by zero"},
	{"division_by_zero", "{{ 5 % 0 }}", "division by zero"},
	{"illegal_character", "{{ 1 $ 2 }}", "illegal token"},
	{"unexpected_token", "{{ 1 + }}", "expected"},
	{"unexpected_token", "{{ ( 1 }}", "expected"},
	{"unexpected_token", "@if(true", "expected"},
}

// multi-line material that precedes the fault
var multiLine = []string{"text\nmore text\n", "a\r\nb\r\n", "{{ \"str\nwith\nnewlines\" }}", "{{-- a\ncomment\n--}}", "{{--\nc\n--}}", "{{--\n\n--}}\n", "{{--\r\nc--}}", "{{-- c\n--}}", "{{ 1 +\n 2 }}", "{{\n\"x\"\n}}\n",
	"@if(true)\nyes\n@end", "@each(q in [1,\n2])\n{{ q }}@end\n", "one line ", "", "\n\n\n",
	// strings that begin or end with a line break, or are one
	"{{ \"\nabc\" }}", "{{ '\n' }}", "{{ \"a\n\" }}", "{{ [\"\n\", 'x\n'] }}\n",
	// carriage returns on their own and other characters that look like line ends are not line ends
	"a\rb", "\r", "{{ 1 +\r 2 }}", "{{-- c\rd --}}", "{{ \"s\rt\" }}", "x\r\ry\n", "\n\r", "\u2028", "\u0085", "\v\f", "\r\r\n", "{{ x = \"a\nb\" }}", "\\{{ not code\n", "<p>\n</p>\n"}

func (g *Gen) preamble() string {
	var sb strings.Builder
	n := g.n(5)
	for i := 0; i < n; i++ {
		sb.WriteString(g.pick(multiLine))
	}
	return sb.String()
}

func wantErrAt(line int, path string, msgPart string) func(string) string {
	return func(r string) string {
		r = strings.TrimPrefix(r, "NEWERR ")
		f := strings.Fields(r)
		if len(f) < 4 || f[0] != "ERR" {
			return fmt.Sprintf("expected an error at line %d, got %s", line, describe(r))
		}
		if f[1] != strconv.Itoa(line) {
			return fmt.Sprintf("the construct is on line %d, the error reports line %s (%q)", line, f[1], unhx(f[3]))
		}
		if unhx(f[2]) != path {
			return fmt.Sprintf("the construct is in %q, the error reports the path %q", path, unhx(f[2]))
		}
		if msgPart != "" && !strings.Contains(unhx(f[3]), msgPart) {
			return fmt.Sprintf("expected a message about %q, got %q", msgPart, unhx(f[3]))
		}
		return ""
	}
}

// wantErrLine: an error on the given line (the path is not constrained)
func wantErrLine(line int, msgPart string) func(string) string {
	return func(r string) string {
		r = strings.TrimPrefix(r, "NEWERR ")
		f := strings.Fields(r)
		if len(f) < 4 || f[0] != "ERR" {
			return fmt.Sprintf("expected an error at line %d, got %s", line, describe(r))
		}
		if f[1] != strconv.Itoa(line) {
			return fmt.Sprintf("the construct is on line %d of its file, the error reports line %s (%q)", line, f[1], unhx(f[3]))
		}
		if msgPart != "" && !strings.Contains(unhx(f[3]), msgPart) {
			return fmt.Sprintf("expected a message about %q, got %q", msgPart, unhx(f[3]))
		}
		return ""
	}
}

func casesC13(g *Gen) []*Case {
	var cs []*Case
	// faults inside a component file that starts with blank lines / multi-line material; the page
	// that uses it is loaded before the component file itself ("about" < "widgets/card") or after it
	for i := 0; i < g.scale(400, 10000); i++ {
		f := evalFaults[g.n(len(evalFaults))]
		if f.src == "@if(true" {
			continue
		}
		pre := g.pick([]string{"\n", "\n\n", "\r\n\r\n", " \n\t\n", ""}) + g.preamble()
		line := strings.Count(pre, "\n") + 1
		pageName := g.pick([]string{"about", "zlast"})
		t := newTree()
		t.files["tpl/widgets/card.tw"] = pre + f.src + g.pick([]string{"", "\n", "\n\n"})
		t.files["tpl/"+pageName+".tw"] = "P\n\n@component(\"widgets/card\")"
		isParse := f.kind == "illegal_character" || f.kind == "unexpected_token"
		ops := []string{opNew("tpl", ".tw", "", false), opStr(pageName, nil)}
		c := histCase("component_file_"+f.kind, t, ops, "NewTemplate; String("+pageName+")")
		if isParse {
			c.Oracle = expectResults(map[int]func(string) string{0: wantErrAt(line, "tpl/widgets/card.tw", f.msgPart)})
		} else {
			c.Oracle = expectResults(map[int]func(string) string{0: wantNewOK, 1: wantErrLine(line, f.msgPart)})
		}
		cs = append(cs, c)
	}
	// a fault in the page's own slot body is a fault in the page: its line in the page and the page's path, although the body is
	// evaluated while the component is rendered
	for i := 0; i < g.scale(300, 6000); i++ {
		f := evalFaults[g.n(len(evalFaults))]
		if f.kind == "illegal_character" || f.kind == "unexpected_token" {
			continue
		}
		pageName := g.pick([]string{"about", "zlast"})
		head := g.preamble() + g.pick([]string{"@component(\"widgets/card\")\n@slot\n", "@component(\"widgets/card\")@slot", "@component(\"widgets/card\")\n  @slot(\"side\")\n  ",
			"@component(\"widgets/card\")\n@slot\nfine\n@end\n@slot(\"side\")\n\n"})
		line := strings.Count(head, "\n") + 1
		t := newTree()
		t.files["tpl/widgets/card.tw"] = g.pick([]string{"", "\n\n", "{{-- c\n --}}\n"}) + "<div>@slot</div>\n<i>@slot(\"side\")</i>\n"
		t.files["tpl/"+pageName+".tw"] = head + f.src + g.pick([]string{"@end@end", "\n@end\n@end\n"})
		ops := []string{opNew("tpl", ".tw", "", false), opStr(pageName, nil)}
		c := histCase("slot_body_"+f.kind, t, ops, "NewTemplate; String("+pageName+")")
		c.Oracle = expectResults(map[int]func(string) string{0: wantNewOK, 1: wantErrAt(line, "tpl/"+pageName+".tw", f.msgPart)})
		cs = append(cs, c)
	}
	for i := 0; i < g.scale(4000, 100000); i++ {
		f := evalFaults[g.n(len(evalFaults))]
		pre := g.preamble()
		post := g.pick([]string{"", "\nafter\n", "{{ 1 }}"})
		if f.src == "@if(true" {
			post = ""
		}
		src := pre + f.src + post
		line := strings.Count(pre, "\n") + 1
		if g.chance(1, 2) {
			c := evalCase("string_"+f.kind, src, nil)
			c.Oracle = func(c *Case, impl string) string { return wantErrAt(line, "", f.msgPart)(impl) }
			cs = append(cs, c)
		} else {
			t := newTree()
			sub := g.pick([]string{"", "blog/"})
			t.files["tpl/"+sub+"p.tw"] = src
			t.files["tpl/other.tw"] = "fine"
			isParse := f.kind == "illegal_character" || f.kind == "unexpected_token"
			ops := []string{opNew("tpl", ".tw", "", false), opStr("other", nil), opStr(sub+"p", nil)}
			c := histCase("file_"+f.kind, t, ops, "NewTemplate; String(other); String("+sub+"p)")
			path := "tpl/" + sub + "p.tw"
			if isParse {
				c.Oracle = expectResults(map[int]func(string) string{0: wantErrAt(line, path, f.msgPart)})
			} else {
				c.Oracle = expectResults(map[int]func(string) string{0: wantNewOK, 1: wantOK("fine"), 2: wantErrAt(line, path, f.msgPart)})
			}
			cs = append(cs, c)
		}
	}
	// constructs that span lines: the error carries the line of the token at fault (of the key, not of the bracket;
	// of the unexpected token, not of the one before it), and the first fault recorded is the one reported
	for _, f := range []struct {
		src  string
		line int
		part string
	}{
		{"@component(\"card\", {title: 1\n body: 2})", 2, "expected next token to be ','"},
		{"<h1>\nhello\n</h1>\n@component(\"card\", {title: 1\n ~ })", 5, "illegal token"},
		{"{{ \"a\nb\" }}@component(\"card\", {title: x.\n 5})", 3, "expected next token to be 'IDENT'"},
		{"{{-- a\nb --}}\n@component(\"card\", {list: [1, 2\n 3]})", 4, "expected next token to be ']'"},
		{"{{ user[\n  \"nmae\"\n] }}", 2, "not found"},
		{"{{ user[\"na\nme\"] }}", 2, "not found"},
		{"<p>\r\n</p>{{-- a\n b --}}{{ \"x\ny\" }}\n@if(true)\n{{ user[\n\n\"nmae\"] }}\n@end", 8, "not found"},
		{"<p>\n</p>{{ user[\"nmae\"] }}", 2, "not found"},
		{"<ul>\n@each(key in keys)\n  <li>{{ user[\n    key\n  ] }}</li>\n@end\n</ul>\n", 4, "not found"},
		{"{{ user\n.\nnmae }}", 2, "not found"},
		{"{{ [1, 2][\n5\n] }}", 0, ""},
		{"{{ 1 +\n\n nosuch }}", 3, "nosuch"},
		{"@if(true &&\n 1)x@end", 0, ""},
		{"{{ user.name\n.nosuchfn(\n1) }}", 2, "nosuchfn"},
		{"{{ [\n1,\n2\n].lenght() }}", 4, "lenght"},
		{"{{ user.name\n.upper()\n.nosuch()\n.lower() }}", 3, "nosuch"},
		{"<p>\n{{ \"a\nb\"\n.nofn() }}", 4, "nofn"},
		{"{{ 5\n\n.somefunction(\n) }}", 3, "somefunction"},
		{"@each(k in\n [1,\n 2 3])@end", 3, "expected next token"},
		{"@dump(1,\n 2\n 3)", 3, "expected next token"},
		{"@insert(\"a\",\n [1\n 2])", 3, "expected next token"},
	} {
		d := gvMap("user", gvMap("name", gvStr("Ann")), "keys", gvList(gvStr("name"), gvStr("nmae")))
		f := f
		c := evalCase("faults_spanning_lines", f.src, d)
		if f.line > 0 {
			c.Oracle = func(c *Case, impl string) string { return wantErrAt(f.line, "", f.part)(impl) }
		}
		cs = append(cs, c)
		t := newTree()
		t.files["tpl/blog/p.tw"] = f.src
		t.files["tpl/card.tw"] = "[card]"
		ch := histCase("faults_spanning_lines", t, []string{opNew("tpl", ".tw", "", false), opStr("blog/p", d)}, "NewTemplate; String(blog/p)")
		if f.line > 0 {
			ch.Oracle = func(c *Case, impl string) string {
				rs := results(impl)
				r := rs[len(rs)-1]
				if strings.HasPrefix(rs[0], "NEWERR") {
					r = rs[0]
				}
				return wantErrAt(f.line, "tpl/blog/p.tw", f.part)(r)
			}
		}
		cs = append(cs, ch)
	}
	// directories and files whose names hold a percent sign (or look like format verbs): path and line are reported as they are
	for _, dir := range []string{"50%off", "promo%20pages", "100%done", "%s", "%d%d", "a%!b", "p%", "%%", "x%vy", "ok"} {
		for _, file := range []string{"page", "10%", "%s%d", "q%20r"} {
			if dir == "ok" && file == "page" {
				continue
			}
			t := newTree()
			t.files["tpl/"+dir+"/"+file+".tw"] = "line one\n\n{{ nosuchname }}"
			t.files["tpl/"+dir+"/bad.tw"] = "x\n{{ 1 + }}"
			ops := []string{opNew("tpl", ".tw", "", false)}
			c := histCase("percent_in_paths", t, ops, "NewTemplate over a tree with a syntax error in "+dir+"/bad.tw")
			c.Oracle = expectResults(map[int]func(string) string{0: wantErrAt(2, "tpl/"+dir+"/bad.tw", "")})
			cs = append(cs, c)
			t2 := newTree()
			t2.files["tpl/"+dir+"/"+file+".tw"] = "line one\n\n{{ nosuchname }}"
			c = histCase("percent_in_paths", t2, []string{opNew("tpl", ".tw", "", false), opStr(dir+"/"+file, nil), opResp(dir+"/"+file, nil)}, "NewTemplate; String and Response of "+dir+"/"+file)
			c.Oracle = expectResults(map[int]func(string) string{0: wantNewOK, 1: wantErrAt(3, "tpl/"+dir+"/"+file+".tw", "nosuchname")})
			cs = append(cs, c)
			// the directory itself
			t3 := newTree()
			t3.files[dir+"/"+file+".tw"] = "\n{{ 7 / 0 }}"
			c = histCase("percent_in_paths", t3, []string{opNew(dir, ".tw", "", false), opStr(file, nil)}, "NewTemplate("+dir+"); String("+file+")")
			c.Oracle = expectResults(map[int]func(string) string{0: wantNewOK, 1: wantErrAt(2, dir+"/"+file+".tw", "division by zero")})
			cs = append(cs, c)
		}
	}
	// load-time faults: undefined insert, unknown component; faults inside layouts
	for i := 0; i < g.scale(600, 12000); i++ {
		pre := g.preamble()
		line := strings.Count(pre, "\n") + 1
		t := newTree()
		t.files["tpl/layouts/l.tw"] = "<L>\n@reserve(\"a\")\n</L>"
		switch g.n(5) {
		case 3, 4:
			// an unknown component written in the layout is a fault of the layout file, whether the page that uses the
			// layout is loaded before it (index) or after it (views/home)
			page := g.pick([]string{"tpl/index.tw", "tpl/about.tw", "tpl/views/home.tw", "tpl/z.tw"})
			t.files["tpl/layouts/l.tw"] = pre + "@component(\"~nosuchcomp\")\n@reserve(\"a\")"
			t.files[page] = "@use(\"~l\")@insert(\"a\")x@end"
			c := histCase("layout_unknown_component_line", t, []string{opNew("tpl", ".tw", "", false)}, "NewTemplate")
			c.Oracle = expectResults(map[int]func(string) string{0: wantErrAt(line, "tpl/layouts/l.tw", "nosuchcomp")})
			cs = append(cs, c)
		case 0:
			t.files["tpl/p.tw"] = "@use(\"~l\")" + pre + "@insert(\"zz\")x@end"
			c := histCase("undefined_insert_line", t, []string{opNew("tpl", ".tw", "", false)}, "NewTemplate")
			c.Oracle = expectResults(map[int]func(string) string{0: wantErrAt(line, "tpl/p.tw", "zz")})
			cs = append(cs, c)
		case 1:
			t.files["tpl/p.tw"] = pre + "@component(\"~nosuchcomp\")"
			c := histCase("unknown_component_line", t, []string{opNew("tpl", ".tw", "", false)}, "NewTemplate")
			c.Oracle = expectResults(map[int]func(string) string{0: wantErrAt(line, "tpl/p.tw", "nosuchcomp")})
			cs = append(cs, c)
		default:
			// a syntax fault in the layout file is reported with the layout's path
			t.files["tpl/layouts/l.tw"] = pre + "{{ 1 + }}" + "\n@reserve(\"a\")"
			t.files["tpl/p.tw"] = "@use(\"~l\")@insert(\"a\")x@end"
			c := histCase("layout_syntax_line", t, []string{opNew("tpl", ".tw", "", false)}, "NewTemplate")
			c.Oracle = expectResults(map[int]func(string) string{0: wantErrAt(line, "tpl/layouts/l.tw", "")})
			cs = append(cs, c)
		}
	}
	// a fault inside the argument form / the block form of an @insert is a fault of the page
	for _, form := range []string{"@insert(\"a\", nosuch)", "@insert(\"a\")\n{{ nosuch }}@end", "@insert(\"a\", 1 / 0)", "@insert(\"a\", {k: 1}.zz)"} {
		for _, pre := range []string{"", "\n\n", "text\n{{-- c\n--}}\n"} {
			t := newTree()
			t.files["tpl/layouts/l.tw"] = "<L>\n\n\n@reserve(\"a\")\n</L>"
			t.files["tpl/sub/p.tw"] = "@use(\"~l\")" + pre + form
			line := strings.Count(pre, "\n") + 1
			if strings.Contains(form, "\n{{") {
				line++
			}
			c := histCase("insert_fault_is_the_pages", t, []string{opNew("tpl", ".tw", "", false), opStr("sub/p", nil)}, "NewTemplate; String(sub/p)")
			c.Oracle = expectResults(map[int]func(string) string{0: wantNewOK, 1: wantErrAt(line, "tpl/sub/p.tw", "")})
			cs = append(cs, c)
		}
	}
	// a load that failed leaves nothing behind: the lines of the next load are exact
	for _, bad := range []string{"{{ 1 # }}\n", "{{ 1 # }}\n\n", "a\n{{ $ }}", "{{-- c\n", "{{ \"unterminated\n"} {
		t1 := newTree()
		t1.files["bad/x.tw"] = bad
		t2 := newTree()
		t2.files["bad/x.tw"] = bad
		t2.files["tpl/a.tw"] = "l1\nl2\n{{ 1 + }}"
		t2.files["good/b.tw"] = "l1\n{{ nosuch }}"
		ops := []string{opNew("bad", ".tw", "", false), opNew("tpl", ".tw", "", false), opNew("bad", ".tw", "", false), opNew("good", ".tw", "", false), opStr("b", nil)}
		c := histCase("lines_after_failed_load", t2, ops, "NewTemplate(bad); NewTemplate(tpl); NewTemplate(bad); NewTemplate(good); String(b)")
		c.Oracle = expectResults(map[int]func(string) string{0: wantErr(""), 1: wantErrAt(3, "tpl/a.tw", ""), 2: wantErr(""), 3: wantNewOK, 4: wantErrAt(2, "good/b.tw", "nosuch")})
		cs = append(cs, c)
		_ = t1
	}
	// page faults keep their own path whatever was rendered before on the same Template
	{
		t := newTree()
		t.files["tpl/home.tw"] = "home"
		t.files["tpl/about.tw"] = "a\n{{ nosuch }}"
		t.files["tpl/blog/post.tw"] = "\n\n{{ 1 / 0 }}"
		ops := []string{opNew("tpl", ".tw", "", false), opStr("home", nil), opStr("about", nil), opStr("blog/post", nil), opStr("home", nil), opStr("about", nil)}
		c := histCase("path_after_other_renders", t, ops, "NewTemplate; String(home); String(about); String(blog/post); String(home); String(about)")
		c.Oracle = expectResults(map[int]func(string) string{0: wantNewOK, 1: wantOK("home"), 2: wantErrAt(2, "tpl/about.tw", "nosuch"),
			3: wantErrAt(3, "tpl/blog/post.tw", "division"), 4: wantOK("home"), 5: wantErrAt(2, "tpl/about.tw", "nosuch")})
		cs = append(cs, c)
	}
	return cs
}

// ---------------------------------------------------------------------------------------------
// C18

func casesC18(g *Gen) []*Case {
	var cs []*Case
	segs := []string{"a", "b", "tw", "x.tw", "v1"}
	exts := []string{".tw", ".tw.html", "tw", ".t"}
	for i := 0; i < g.scale(1500, 30000); i++ {
		ext := g.pick(exts)
		base := g.pick([]string{"d", "d/sub", "views", "d", "views", "."})
		t := newTree()
		want := map[string]string{} // name -> content
		n := 1 + g.n(6)
		for k := 0; k < n; k++ {
			depth := g.n(3)
			var parts []string
			for d := 0; d < depth; d++ {
				parts = append(parts, g.pick(segs))
			}
			stem := g.pick([]string{"p", "q", "index", "notes.tw", "a" + ext, "tw", "x"})
			fileExt := ext
			if g.chance(1, 4) {
				fileExt = g.pick([]string{".txt", ext + ".bak", ".tw.bak", "", ".html"})
			}
			rel := strings.Join(append(parts, stem+fileExt), "/")
			content := fmt.Sprintf("C%d", k)
			isLayout := g.chance(1, 8)
			if isLayout {
				content = `<@reserve("r")>`
			}
			p := base + "/" + rel
			if base == "." {
				p = rel
			}
			if _, dup := t.files[p]; dup {
				continue
			}
			// a path must not be both a file and a directory
			clash := false
			for other := range t.files {
				if strings.HasPrefix(other, p+"/") || strings.HasPrefix(p, other+"/") {
					clash = true
				}
			}
			if clash {
				continue
			}
			t.files[p] = content
			if strings.HasSuffix(stem+fileExt, ext) && !isLayout {
				want[strings.TrimSuffix(rel, ext)] = content
			} else if strings.HasSuffix(stem+fileExt, ext) && isLayout {
				want[strings.TrimSuffix(rel, ext)] = "\x00layout"
			}
		}
		if len(t.files) == 0 {
			continue
		}
		spell := g.pick([]string{base, base + "/", base + "//", "./" + base, "zz/../" + base, base + "/.", "/" + base + "/"})
		if base == "." {
			// the working directory itself as the template directory
			spell = g.pick([]string{".", "./", "zz/..", "././", "zz/../."})
		}
		if strings.HasPrefix(spell, "zz/") {
			t.dirs = append(t.dirs, "zz")
		}
		var names []string
		for nm, c := range want {
			if c != "\x00layout" {
				names = append(names, nm)
			}
		}
		sort.Strings(names)
		ops := []string{opNew(spell, ext, "", g.chance(1, 2))} // debug mode on or off: the same names, the same layouts
		checks := map[int]func(string) string{0: func(r string) string {
			if !strings.HasPrefix(r, "NEWOK") {
				return "loading failed: " + describe(strings.TrimPrefix(r, "NEWERR "))
			}
			var got []string
			for _, h := range strings.Split(strings.TrimSpace(strings.TrimPrefix(r, "NEWOK")), ",") {
				if h != "" {
					got = append(got, unhx(h))
				}
			}
			if strings.TrimSpace(strings.TrimPrefix(r, "NEWOK")) == "" {
				got = nil
			}
			sort.Strings(got)
			if strings.Join(got, "\n") != strings.Join(names, "\n") {
				return fmt.Sprintf("registered names %q, expected %q (directory spelling %q, extension %q)", got, names, spell, ext)
			}
			return ""
		}}
		for _, nm := range sortedKeys(want) {
			idx := len(ops)
			ops = append(ops, opStr(nm, nil))
			if want[nm] == "\x00layout" {
				checks[idx] = wantErr("template not found")
			} else {
				checks[idx] = wantOK(want[nm])
			}
			// evaluating the file by path equals evaluating its content
		}
		idx := len(ops)
		ops = append(ops, opStr("no/such/name", nil))
		checks[idx] = wantErr("template not found")
		c := histCase("registered_names", t, ops, "NewTemplate("+spell+", "+ext+"); String(each name); String(no/such/name)")
		c.Oracle = expectResults(checks)
		cs = append(cs, c)
	}
	// a file without reserves that another page uses as its layout is still a page of its own,
	// whichever of the two is loaded first; a fault inside it still fails loading
	for _, user := range []string{"app", "zz/app"} {
		t := newTree()
		t.files["tpl/shared/base.tw"] = "<B>{{ 1 + 1 }}</B>"
		t.files["tpl/"+user+".tw"] = "@use(\"shared/base\")ignored"
		c := histCase("plain_file_used_as_layout", t, []string{opNew("tpl", ".tw", "", false), opStr("shared/base", nil), opStr(user, nil)}, "NewTemplate; String(shared/base); String("+user+")")
		c.Oracle = func(c *Case, impl string) string {
			rs := results(impl)
			if len(rs) != 3 || !strings.HasPrefix(rs[0], "NEWOK") {
				return "the tree must load: " + clip(impl, 200)
			}
			names := strings.Split(strings.TrimPrefix(rs[0], "NEWOK "), ",")
			got := map[string]bool{}
			for _, n := range names {
				got[unhx(n)] = true
			}
			if !got["shared/base"] || !got[user] || len(got) != 2 {
				return fmt.Sprintf("registered names must be exactly {shared/base, %s}, got %v", user, got)
			}
			for _, r := range rs[1:] {
				if msg := wantOK("<B>2</B>")(r); msg != "" {
					return msg
				}
			}
			return ""
		}
		cs = append(cs, c)
		t2 := t.clone()
		t2.files["tpl/shared/base.tw"] = "<B>@component(\"nosuchcomp\")</B>"
		c2 := histCase("plain_file_used_as_layout", t2, []string{opNew("tpl", ".tw", "", false)}, "NewTemplate (the used file refers to a missing component)")
		c2.Oracle = expectResults(map[int]func(string) string{0: wantErr("nosuchcomp")})
		cs = append(cs, c2)
	}
	// loading while other goroutines evaluate strings and files: every load registers the same files
	for _, G := range []int{2, 6} {
		t := newTree()
		t.files["tpl/layouts/main.tw"] = `<L>@reserve("body")</L>`
		t.files["tpl/components/card.tw"] = `[{{ t }}@slot]`
		for k := 0; k < 12; k++ {
			t.files[fmt.Sprintf("tpl/pages/p%02d.tw", k)] = `@use("~main")@insert("body")@component("~card", {t: 1})@slot x@end@end@end`
		}
		t.files["files/f.tw"] = "file {{ 1 + 1 }}"
		fields := []string{t.term(), strconv.Itoa(G), "150", opNew("tpl", ".tw", "", false), opEvs("{{ 1 + 2 }}", nil), opEvf("files/f.tw", nil), opEvs("{{ nosuch }}", nil)}
		c := &Case{Kind: "loadconc", Fields: fields, Family: "load_while_strings_are_evaluated", NoModel: true,
			Note: fmt.Sprintf("NewTemplate x150 over layouts, components and pages while %d goroutines call EvaluateString / EvaluateFile", G)}
		c.Timeout = 120 * time.Second
		c.Oracle = func(c *Case, impl string) string {
			if strings.HasPrefix(impl, "LOADCONC ok") && strings.Contains(impl, "answer=NEWOK") {
				return ""
			}
			return "a load that overlaps with string evaluations did not answer what it answers alone: " + clip(impl, 400)
		}
		cs = append(cs, c)
	}
	// symbolic links to regular files read like the files: as pages, as components, through EvaluateFile
	{
		t := newTree()
		t.files["shared/card.tw"] = "[card {{ 1 + 1 }}]"
		t.files["shared/page.tw"] = `P @component("card")`
		t.files["tpl/home.tw"] = "home"
		t.syms = map[string]string{"tpl/card.tw": "shared/card.tw", "tpl/linked.tw": "shared/page.tw", "files/l.tw": "shared/card.tw", "files/deep/again.tw": "shared/card.tw"}
		c := histCase("symbolic_links_to_files", t, []string{opNew("tpl", ".tw", "", false), opStr("linked", nil), opStr("card", nil), opEvf("files/l.tw", nil), opEvf("shared/card.tw", nil),
			opEvfRel("files/deep/again.tw", nil), opEvs("[card {{ 1 + 1 }}]", nil)}, "NewTemplate over a tree with links; EvaluateFile of a link, of its target, of the content")
		c.Oracle = expectResults(map[int]func(string) string{0: wantNewOK, 1: wantOK("P [card 2]"), 2: wantOK("[card 2]"), 3: wantOK("[card 2]"), 4: wantOK("[card 2]"), 5: wantOK("[card 2]"), 6: wantOK("[card 2]")})
		cs = append(cs, c)
	}
	// a directory is not a template: asking for its name (with or without an index file in it) is "not found"
	{
		t := newTree()
		t.files["tpl/index.tw"] = "root index"
		t.files["tpl/blog/index.tw"] = "blog index"
		t.files["tpl/blog/post.tw"] = "post"
		t.files["tpl/docs/api/index.tw"] = "api index"
		t.files["tpl/docs/api/main.tw"] = "api main"
		t.files["tpl/docs/default.tw"] = "d"
		ops := []string{opNew("tpl", ".tw", "", false), opStr("blog", nil), opStr("blog/", nil), opStr("docs/api", nil), opStr("docs", nil), opStr("", nil), opStr("/", nil), opStr(".", nil),
			opStr("blog/index", nil), opStr("index", nil), opStr("docs/api/index", nil), opResp("blog", nil), opStr("blog/post/", nil), opStr("docs/api/", nil)}
		c := histCase("directory_names_are_not_templates", t, ops, "NewTemplate; String of directory names")
		nf := wantErr("not found")
		c.Oracle = expectResults(map[int]func(string) string{0: wantNewOK, 1: nf, 2: nf, 3: nf, 4: nf, 8: wantOK("blog index"), 9: wantOK("root index"), 10: wantOK("api index")})
		cs = append(cs, c)
	}
	// the tree changes between two loads: every load sees the tree as it is then
	{
		t := newTree()
		t.files["tpl/home.tw"] = "home"
		t.files["tpl/deep/er/old.tw"] = "old"
		ops := []string{opNew("tpl", ".tw", "", false), opStr("home", nil),
			opWrite("tpl/deep/er/added.tw", "added {{ 1 + 1 }}"), opNew("tpl", ".tw", "", false), opStr("deep/er/added", nil), opStr("deep/er/old", nil),
			opRm("tpl/deep/er/old.tw"), opNew("tpl", ".tw", "", false), opStr("deep/er/old", nil), opStr("deep/er/added", nil),
			opWrite("tpl/deep/er/added.tw", "changed"), opNew("tpl", ".tw", "", false), opStr("deep/er/added", nil)}
		c := histCase("tree_changes_between_loads", t, ops, "NewTemplate; add a nested file; NewTemplate; remove a nested file; NewTemplate; change a file; NewTemplate")
		c.Oracle = expectResults(map[int]func(string) string{0: wantNewOK, 1: wantOK("home"), 3: wantNewOK, 4: wantOK("added 2"), 5: wantOK("old"),
			7: wantNewOK, 8: wantErr("template not found"), 9: wantOK("added 2"), 11: wantNewOK, 12: wantOK("changed")})
		cs = append(cs, c)
	}
	// one missing component / one broken layout used by many pages: loading fails (and returns) with that fault
	for _, n := range []int{9, 12, 40} {
		t := newTree()
		t2 := newTree()
		t2.files["tpl/layouts/broken.tw"] = "<L>{{ 1 + }}@reserve(\"x\")</L>"
		for i := 0; i < n; i++ {
			t.files[fmt.Sprintf("tpl/p%02d.tw", i)] = "page @component(\"nosuchcomp\")"
			t2.files[fmt.Sprintf("tpl/p%02d.tw", i)] = "@use(\"~broken\")@insert(\"x\")i@end"
		}
		c := histCase("many_pages_one_fault", t, []string{opNew("tpl", ".tw", "", false)}, fmt.Sprintf("NewTemplate: %d pages use a missing component", n))
		c.Oracle = expectResults(map[int]func(string) string{0: wantErr("nosuchcomp")})
		cs = append(cs, c)
		c2 := histCase("many_pages_one_fault", t2, []string{opNew("tpl", ".tw", "", false)}, fmt.Sprintf("NewTemplate: %d pages use a layout with a syntax error", n))
		c2.Oracle = expectResults(map[int]func(string) string{0: wantErr("")})
		cs = append(cs, c2)
	}
	// fault enumeration on a valid tree: every file x {truncated at every prefix, garbage, dangling symlink, directory in its place, deleted}
	valid := newTree()
	valid.files["tpl/layouts/main.tw"] = "<L>@reserve(\"body\")@if(true)x@end</L>"
	valid.files["tpl/components/card.tw"] = "<c>{{ t }}@slot</c>"
	valid.files["tpl/home.tw"] = "@use(\"~main\")@insert(\"body\")@component(\"~card\", {t: \"T\"})@slot in@end@end@end"
	valid.files["tpl/about.tw"] = "@if(true){{ \"about\" }}@end"
	{
		c := histCase("valid_tree", valid, []string{opNew("tpl", ".tw", "", false), opStr("home", nil), opStr("about", nil)}, "NewTemplate; String(home); String(about)")
		c.Oracle = expectResults(map[int]func(string) string{0: wantNewOK, 1: wantOK("<L><c>T in</c>x</L>"), 2: wantOK("about")})
		cs = append(cs, c)
	}
	mustFailNaming := func(path string, alsoOK, strict bool) func(string) string {
		return func(r string) string {
			if strings.HasPrefix(r, "NEWOK") {
				if alsoOK {
					return ""
				}
				return "a faulty file did not make loading fail"
			}
			rr := strings.TrimPrefix(r, "NEWERR ")
			f := strings.Fields(rr)
			if len(f) >= 3 && (f[0] == "ERR" || f[0] == "OSERR") {
				p := unhx(f[2])
				msg := ""
				if len(f) >= 4 {
					msg = unhx(f[3])
				}
				base := strings.TrimSuffix(path[strings.LastIndex(path, "/")+1:], ".tw")
				if p == path || strings.Contains(msg, base) || (!strict && strings.HasSuffix(p, ".tw")) {
					return ""
				}
				return fmt.Sprintf("the error does not identify the faulty file %q: path %q message %q", path, p, msg)
			}
			return "expected a load error: " + describe(rr)
		}
	}
	// the same tree with the pages in a directory that sorts before components/ and layouts/: the page is loaded first and meets
	// the faulty component or layout while using it
	early := newTree()
	for k, v := range valid.files {
		if k == "tpl/home.tw" || k == "tpl/about.tw" {
			k = "tpl/aa/" + strings.TrimPrefix(k, "tpl/")
		}
		early.files[k] = v
	}
	for ti, valid := range []*Tree{valid, early} {
	_ = ti
	for _, p := range sortedKeys(valid.files) {
		content := valid.files[p]
		step := 1
		if !g.thorough() {
			step = 3
		}
		for cut := 0; cut < len(content); cut += step {
			t := valid.clone()
			t.files[p] = content[:cut]
			c := histCase("fault_truncated", t, []string{opNew("tpl", ".tw", "", false)}, "NewTemplate with "+p+" truncated to "+strconv.Itoa(cut)+" bytes")
			// a truncation may still be a valid template; what must not happen is a crash, a hang or a half-loaded template
			c.Oracle = expectResults(map[int]func(string) string{0: mustFailNaming(p, true, false)})
			cs = append(cs, c)
		}
		for _, garbage := range []string{"{{", "@if(", "{{ $ }}", "{{ 1 + }}", "\xff\xfe{{ }}", "@insert(\"x\""} {
			t := valid.clone()
			t.files[p] = garbage
			c := histCase("fault_garbage", t, []string{opNew("tpl", ".tw", "", false)}, "NewTemplate with "+p+" replaced by garbage")
			c.Oracle = expectResults(map[int]func(string) string{0: mustFailNaming(p, false, true)})
			cs = append(cs, c)
		}
		{
			t := valid.clone()
			delete(t.files, p)
			t.links = append(t.links, p)
			c := histCase("fault_dangling_symlink", t, []string{opNew("tpl", ".tw", "", false)}, "NewTemplate with "+p+" a dangling symlink")
			c.Oracle = expectResults(map[int]func(string) string{0: mustFailNaming(p, false, true)})
			cs = append(cs, c)
		}
		{
			t := valid.clone()
			delete(t.files, p)
			t.dirs = append(t.dirs, p)
			c := histCase("fault_directory_in_place", t, []string{opNew("tpl", ".tw", "", false)}, "NewTemplate with a directory at "+p)
			isPage := !strings.Contains(p, "layouts/") && !strings.Contains(p, "components/")
			c.Oracle = expectResults(map[int]func(string) string{0: mustFailNaming(p, isPage, true)})
			cs = append(cs, c)
		}
		if strings.Contains(p, "layouts/") || strings.Contains(p, "components/") {
			t := valid.clone()
			delete(t.files, p)
			c := histCase("fault_deleted", t, []string{opNew("tpl", ".tw", "", false)}, "NewTemplate with "+p+" deleted")
			c.Oracle = expectResults(map[int]func(string) string{0: mustFailNaming(p, false, true)})
			cs = append(cs, c)
		}
	}
	}
	// a symlinked template with a dangling target fails loading; names whose stem ends in the extension
	{
		t := newTree()
		t.files["tpl/card.tw.tw"] = "card"
		t.files["tpl/page.tw"] = "@component(\"card.tw\")"
		c := histCase("stem_ends_in_extension", t, []string{opNew("tpl", ".tw", "", false), opStr("page", nil), opStr("card.tw", nil)}, "NewTemplate; String(page); String(card.tw)")
		c.Oracle = expectResults(map[int]func(string) string{0: wantNewOK, 1: wantOK("card"), 2: wantOK("card")})
		cs = append(cs, c)
	}
	// EvaluateFile equals EvaluateString of the content
	for i := 0; i < g.scale(300, 6000); i++ {
		sc := stdScope()
		src := g.template(sc, 2)
		if i%4 == 0 {
			// bytes that tools add to or strip from the start and end of files
			src = g.pick([]string{"\xef\xbb\xbf", "\xef\xbb\xbf\xef\xbb\xbf", "\xfe\xff", "\xff\xfe", "\x00", "\n", "\r\n", " ", "\t", "\u00a0", "\u2028", "\x1a", "#!", "\xef\xbb"}) + src +
				g.pick([]string{"", "\n", "\r\n", "\n\n", "\x00", "\x1a", " ", "\xef\xbb\xbf"})
		}
		t := newTree()
		t.files["some/dir/f.tw"] = src
		if i%4 == 0 {
			// the same content as a page, a layout's insert and a component
			t.files["tpl/page.tw"] = src
			t.files["tpl/usesc.tw"] = "<@component(\"page\")>"
			cp := histCase("leading_bytes_in_tree", t, []string{opEvs(src, sc.data), opNew("tpl", ".tw", "", false), opStr("page", sc.data), opEvs("<"+src+">", sc.data), opStr("usesc", sc.data)},
				"EvaluateString(content); NewTemplate; String(page) ; the same content as a component")
			cp.Oracle = func(c *Case, impl string) string {
				rs := results(impl)
				if len(rs) < 5 {
					return "missing answers"
				}
				if strings.HasPrefix(rs[0], "OK") && strings.HasPrefix(rs[1], "NEWOK") {
					if rs[2] != rs[0] {
						return fmt.Sprintf("the page rendered as %s but its content evaluated as a string gives %s", describe(rs[2]), describe(rs[0]))
					}
					if strings.HasPrefix(rs[3], "OK") && rs[4] != rs[3] && !strings.Contains(src, "@use") && !strings.Contains(src, "@reserve") && !strings.Contains(src, "@slot") {
						return fmt.Sprintf("the component rendered as %s but the same content inline gives %s", describe(rs[4]), describe(rs[3]))
					}
				}
				return ""
			}
			cs = append(cs, cp)
		}
		c := histCase("evaluate_file", t, []string{opEvs(src, sc.data), opEvf("some/dir/f.tw", sc.data), opEvf("some/dir/missing.tw", sc.data)}, "EvaluateString(content); EvaluateFile(path); EvaluateFile(missing)")
		c.Oracle = func(c *Case, impl string) string {
			rs := results(impl)
			if len(rs) < 3 {
				return "missing answers"
			}
			if rs[0] != rs[1] {
				return fmt.Sprintf("EvaluateFile gave %s but EvaluateString of the same content gave %s", describe(rs[1]), describe(rs[0]))
			}
			if !strings.HasPrefix(rs[2], "OSERR") && !strings.HasPrefix(rs[2], "ERR") {
				return "evaluating a missing file must fail: " + describe(rs[2])
			}
			return ""
		}
		cs = append(cs, c)
	}
	return cs
}
