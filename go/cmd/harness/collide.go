package main

// Pairs of different, equally long texts that collide under the usual 32-bit checksums.  A table
// keyed by such a checksum (of a text chunk, a literal, a whole source) instead of the text itself
// confuses exactly these; random generation meets one with probability 2^-32 per pair.

import (
	"hash/adler32"
	"hash/crc32"
	"hash/fnv"
	"sort"
	"sync"
)

type hashFn struct {
	name string
	sum  func(string) uint32
}

var hashFns = []hashFn{
	{"fnv1a32", func(s string) uint32 { h := fnv.New32a(); h.Write([]byte(s)); return h.Sum32() }},
	{"fnv1_32", func(s string) uint32 { h := fnv.New32(); h.Write([]byte(s)); return h.Sum32() }},
	{"crc32ieee", func(s string) uint32 { return crc32.ChecksumIEEE([]byte(s)) }},
	{"crc32c", func(s string) uint32 { return crc32.Checksum([]byte(s), crc32.MakeTable(crc32.Castagnoli)) }},
	{"adler32", func(s string) uint32 { return adler32.Checksum([]byte(s)) }},
	{"fnv64a_low", func(s string) uint32 { h := fnv.New64a(); h.Write([]byte(s)); return uint32(h.Sum64()) }},
	{"fnv64a_fold", func(s string) uint32 { h := fnv.New64a(); h.Write([]byte(s)); v := h.Sum64(); return uint32(v) ^ uint32(v>>32) }},
}

type collision struct {
	fn   string
	a, b string
}

var (
	collideMu    sync.Mutex
	collideCache = map[string][]collision{}
)

// collidingPairs: for every checksum one pair shape(i), shape(j) (i != j) with equal checksums.
// shape must be injective and give texts of one length for all 7-digit arguments.
func collidingPairs(key string, shape func(n int) string) []collision {
	collideMu.Lock()
	defer collideMu.Unlock()
	if c, ok := collideCache[key]; ok {
		return c
	}
	var out []collision
	const N = 3000000
	keys := make([]uint64, N)
	for _, h := range hashFns {
		for n := 0; n < N; n++ {
			keys[n] = uint64(h.sum(shape(n)))<<32 | uint64(n)
		}
		sort.Slice(keys, func(i, j int) bool { return keys[i] < keys[j] })
		for i := 1; i < N; i++ {
			if keys[i]>>32 == keys[i-1]>>32 && shape(int(uint32(keys[i-1]))) != shape(int(uint32(keys[i]))) {
				out = append(out, collision{h.name, shape(int(uint32(keys[i-1]))), shape(int(uint32(keys[i])))})
				break
			}
		}
	}
	collideCache[key] = out
	return out
}

func numShape(pre, post string) func(int) string {
	return func(n int) string {
		// ten letters a..p spread over the whole 40-bit space (a linear checksum is injective on
		// texts that differ in a window narrower than the checksum)
		v := (uint64(n) * 0x9E3779B97F4A7C15) >> 24
		var b [10]byte
		for i := range b {
			b[i] = 'a' + byte(v>>(4*uint(i)))&15
		}
		return pre + string(b[:]) + post
	}
}
