// Command harness is the correspondence check (TIE-2) and the search for failing inputs.
//
//	harness worker                                  (internal: runs the implementation)
//	harness run <ID> [flags]                        (one property)
//
// For every generated case it runs the real textwire code (in worker sub-processes, under a
// deadline), the compiled Lean model (twdriver) and the property's own oracle, and reports
//   - a property violation (the oracle fails on the implementation), or
//   - a correspondence break (implementation and model differ although the oracle is satisfied).
package main

import (
	"sync/atomic"
	"bufio"
	"crypto/sha1"
	"encoding/json"
	"flag"
	"fmt"
	"io"
	"os"
	"os/exec"
	"path/filepath"
	"sort"
	"strings"
	"sync"
	"time"
)

type Case struct {
	Kind   string   // lex | eval | hist
	Fields []string // protocol fields after the kind
	Family string
	Tags   []string
	Note   string // human readable form of the input (source text, history)
	// Oracle decides the property on the implementation's answer ("" = holds).
	Oracle func(c *Case, impl string) string
	// NoModel: the model is not consulted (runtime-only families: races, repetitions)
	NoModel bool
	// Trivial cases do not count as non-trivial coverage
	Trivial bool
	// Timeout overrides the per-case deadline
	Timeout time.Duration
	// Spec: fields of an additional "spec" request answered by the model driver (c.spec)
	Spec []string

	impl, model, spec string
	// notRun: skipped after too many silent cases (see silentCases)
	notRun bool
}

func (c *Case) key() string { return c.Kind + "\t" + strings.Join(c.Fields, "\t") }

type Violation struct {
	Property string   `json:"property"`
	Class    string   `json:"class"` // property | correspondence | proof
	Family   string   `json:"family"`
	Kind     string   `json:"kind"`
	Fields   []string `json:"fields"`
	Note     string   `json:"note"`
	Impl     string   `json:"implementation"`
	Model    string   `json:"model"`
	Why      string   `json:"why"`
	Replay   string   `json:"replay_cmd"`
}

type Finding struct {
	Property string `json:"property"`
	Status   string `json:"status"` // known | fixed
	Commit   string `json:"commit,omitempty"`
	What     string `json:"what"`
	// a known finding matches a violation when Family (if set) is equal and Contains (if set)
	// occurs in the violation's note, and WhyContains (if set) in its explanation
	Family      string `json:"family,omitempty"`
	Contains    string `json:"note_contains,omitempty"`
	WhyContains string `json:"why_contains,omitempty"`
	Corpus      []struct {
		Input     string  `json:"input"`
		Data      string  `json:"data"`
		ExpectOut *string `json:"expect_out"`
		ExpectErr *string `json:"expect_err"`
		ExpectOK  bool    `json:"expect_ok"`
	} `json:"corpus,omitempty"`
}

// corpusCases: the stored inputs of fixed findings run first in every check of their property
func corpusCases(id string) []*Case {
	var cs []*Case
	for _, f := range loadFindings() {
		if f.Property != id {
			continue
		}
		for _, e := range f.Corpus {
			data := e.Data
			if data == "" {
				data = "(M)"
			}
			c := &Case{Kind: "eval", Fields: []string{hx(e.Input), data}, Family: "corpus_fixed_findings", Note: e.Input}
			what := f.What
			switch {
			case e.ExpectOut != nil:
				want := *e.ExpectOut
				c.Oracle = func(c *Case, impl string) string {
					if why := expectOut(want)(c, impl); why != "" {
						return "a fixed defect is back (" + what + "): " + why
					}
					return ""
				}
			case e.ExpectErr != nil:
				part := *e.ExpectErr
				c.Oracle = func(c *Case, impl string) string {
					if why := wantErr(part)(impl); why != "" {
						return "a fixed defect is back (" + what + "): " + why
					}
					return ""
				}
			default:
				c.Oracle = func(c *Case, impl string) string {
					if strings.HasPrefix(impl, "OK") || strings.HasPrefix(impl, "ERR") {
						return ""
					}
					return "a fixed defect is back (" + what + "): " + clip(impl, 200)
				}
			}
			cs = append(cs, c)
		}
	}
	return cs
}

var (
	verifDir   = "/verif"
	driverPath = "/verif/lean/.lake/build/bin/twdriver"
	scratch    string
)

func main() {
	if len(os.Args) >= 2 && os.Args[1] == "worker" {
		workerMain()
		return
	}
	if len(os.Args) < 3 || os.Args[1] != "run" {
		fmt.Fprintln(os.Stderr, "usage: harness run <ID> [--tier quick|thorough] [--seed N] [--replay file]")
		os.Exit(2)
	}
	id := os.Args[2]
	fs := flag.NewFlagSet("run", flag.ExitOnError)
	tier := fs.String("tier", "quick", "")
	seed := fs.Int64("seed", 1, "")
	replay := fs.String("replay", "", "")
	obligations := fs.Int("obligations", 0, "")
	discharged := fs.Int("discharged", 0, "")
	theorems := fs.String("theorems", "", "comma separated theorem names")
	axioms := fs.String("axioms", "", "axioms found by the audit")
	checker := fs.String("checker", "", "")
	proofBroken := fs.String("proof-broken", "", "description of a broken proof obligation")
	leanS := fs.Float64("lean-seconds", 0, "")
	fs.Parse(os.Args[3:])

	start := time.Now()
	scratch = os.Getenv("VERIF_SCRATCH")
	if scratch == "" {
		scratch = fmt.Sprintf("/var/tmp/verif-scratch-%d", os.Getpid())
	}
	os.MkdirAll(scratch, 0o755)
	defer os.RemoveAll(scratch)

	g := newGen(*seed, *tier)
	var cases []*Case
	if *replay != "" {
		cases = loadReplay(*replay, id, g)
	} else {
		cases = buildCases(id, g)
		if cases != nil {
			cases = append(corpusCases(id), cases...)
		}
	}
	if cases == nil {
		fmt.Fprintln(os.Stderr, "unknown property", id)
		os.Exit(2)
	}
	runAll(cases)

	findings := loadFindings()
	var viols []Violation
	seenWhy := map[string]bool{}
	knownHit := map[int]bool{}
	stats := map[string]*famStat{}
	for _, c := range cases {
		st := stats[c.Family]
		if st == nil {
			st = &famStat{tags: map[string]int{}, outcomes: map[string]int{}}
			stats[c.Family] = st
		}
		st.n++
		for _, t := range c.Tags {
			st.tags[t]++
		}
		st.outcomes[outcomeClass(c.impl)]++
		if len(st.samples) < 2 && !c.Trivial {
			st.samples = append(st.samples, map[string]string{"input": clip(c.Note, 300), "implementation": clip(c.impl, 200)})
		}
		class, why := judge(c)
		if class == "" {
			continue
		}
		if k := matchFinding(findings, id, c, why); k >= 0 {
			knownHit[k] = true
			continue
		}
		// one report per (family, explanation class)
		sig := c.Family + "|" + class + "|" + whyClass(why)
		if seenWhy[sig] {
			continue
		}
		seenWhy[sig] = true
		viols = append(viols, Violation{Property: id, Class: class, Family: c.Family, Kind: c.Kind, Fields: c.Fields,
			Note: c.Note, Impl: c.impl, Model: c.model, Why: why})
	}
	for k := range knownHit {
		fmt.Printf("KNOWN-FINDING: property=%s %s\n", id, findings[k].What)
	}

	// distinct non-trivial cases
	distinct := map[string]bool{}
	for _, c := range cases {
		if !c.Trivial {
			distinct[c.key()] = true
		}
	}

	exit := 0
	os.MkdirAll(filepath.Join(verifDir, "replays"), 0o755)
	propViol := 0
	for i := range viols {
		v := &viols[i]
		if v.Class == "property" {
			propViol++
		}
	}
	for i := range viols {
		v := &viols[i]
		// when a genuine property violation exists, correspondence breaks are secondary
		if v.Class != "property" && propViol > 0 {
			continue
		}
		path := writeReplay(v)
		if v.Class == "property" {
			fmt.Printf("VIOLATION property=%s replay=%s\n", id, path)
		} else {
			fmt.Printf("VIOLATION property=%s replay=%s no-failing-input-found\n", id, path)
		}
		exit = 1
	}
	if *proofBroken != "" && propViol == 0 {
		v := Violation{Property: id, Class: "proof", Why: "proof obligation no longer checks: " + *proofBroken,
			Note: "searched " + fmt.Sprint(len(cases)) + " generated cases of this property; the property's oracle failed on none of them"}
		path := writeReplay(&v)
		fmt.Printf("VIOLATION property=%s replay=%s no-failing-input-found\n", id, path)
		exit = 1
	}

	writeEvidence(id, *tier, *seed, cases, stats, len(distinct), len(viols), time.Since(start).Seconds()+*leanS,
		*obligations, *discharged, *theorems, *axioms, *checker, *proofBroken)
	os.RemoveAll(scratch)
	os.Exit(exit)
}

type famStat struct {
	n        int
	tags     map[string]int
	outcomes map[string]int
	samples  []map[string]string
}

func clip(s string, n int) string {
	if len(s) > n {
		return s[:n] + "…"
	}
	return s
}

func outcomeClass(impl string) string {
	f := strings.SplitN(impl, " ", 2)[0]
	if f == "ERR" {
		// class by message prefix
		parts := strings.Fields(impl)
		if len(parts) >= 4 {
			m := unhx(parts[3])
			w := strings.Fields(m)
			if len(w) > 3 {
				w = w[:3]
			}
			return "ERR:" + strings.Join(w, " ")
		}
	}
	return f
}

func whyClass(why string) string {
	w := strings.Fields(why)
	if len(w) > 4 {
		w = w[:4]
	}
	return strings.Join(w, " ")
}

// judge returns ("", "") when the case is fine, otherwise the class and an explanation
func judge(c *Case) (string, string) {
	if c.notRun {
		return "", ""
	}
	impl := c.impl
	for _, bad := range []string{"PANIC", "HANG", "CRASH", "LOOP", "NEWERR-WITH-TEMPLATE", "OUTPUT-WITH-ERROR", "MUTATED"} {
		if strings.Contains(" "+impl, " "+bad) || strings.HasPrefix(impl, bad) {
			return "property", "the implementation did not return normally: " + clip(impl, 300)
		}
	}
	if c.Oracle != nil {
		if why := c.Oracle(c, impl); why != "" {
			return "property", why
		}
	}
	if c.NoModel || strings.Contains(c.model, "UNSUPPORTED") {
		return "", ""
	}
	if !sameResult(impl, c.model) {
		return "correspondence", "implementation and model differ (family " + c.Family + ")"
	}
	return "", ""
}

func matchFinding(fs []Finding, id string, c *Case, why string) int {
	for i, f := range fs {
		if f.Property != id || f.Status != "known" {
			continue
		}
		if f.Family != "" && f.Family != c.Family {
			continue
		}
		if f.Contains != "" && !strings.Contains(c.Note, f.Contains) {
			continue
		}
		if f.WhyContains != "" && !strings.Contains(why, f.WhyContains) {
			continue
		}
		if f.Family == "" && f.Contains == "" && f.WhyContains == "" {
			continue
		}
		return i
	}
	return -1
}

func loadFindings() []Finding {
	var fs []Finding
	data, err := os.ReadFile(filepath.Join(verifDir, "known_findings.json"))
	if err == nil {
		json.Unmarshal(data, &fs)
	}
	return fs
}

func writeReplay(v *Violation) string {
	h := sha1.Sum([]byte(v.Family + v.Kind + strings.Join(v.Fields, "\t") + v.Why))
	path := filepath.Join(verifDir, "replays", fmt.Sprintf("%s-%x.json", v.Property, h[:6]))
	v.Replay = fmt.Sprintf("/verif/bin/check %s quick --replay %s", v.Property, path)
	data, _ := json.MarshalIndent(v, "", " ")
	os.WriteFile(path, data, 0o644)
	return path
}

func loadReplay(path, id string, g *Gen) []*Case {
	data, err := os.ReadFile(path)
	if err != nil {
		fmt.Fprintln(os.Stderr, err)
		os.Exit(2)
	}
	var v Violation
	json.Unmarshal(data, &v)
	// find the family's oracle by regenerating a probe case of that family
	c := &Case{Kind: v.Kind, Fields: v.Fields, Family: v.Family, Note: v.Note}
	for _, pc := range buildCases(id, g) {
		if pc.Family == v.Family {
			c.Oracle = pc.Oracle
			c.NoModel = pc.NoModel
			break
		}
	}
	return []*Case{c}
}

// ---------------------------------------------------------------------------------------------
// running cases

type proc struct {
	cmd *exec.Cmd
	in  io.WriteCloser
	out *bufio.Reader
	ch  chan string
}

var raceWorkerPath = "/verif/bin/harness-race"

// confirmedHangs counts requests that stayed unanswered even with the long limit
var confirmedHangs int64

// silentCases counts every request that got no answer within its limit.  After hangs have been confirmed and sixty
// requests stayed silent the verdict is settled (the silent cases are reported with their inputs); the remaining cases are
// not run, so that a tree on which a whole class of inputs never returns is reported in minutes instead of hours.
var silentCases int64

const silentCasesLimit = 60

// readRaceLog returns the head of the race detector's report, if any
func readRaceLog(base string) string {
	ms, _ := filepath.Glob(base + ".*")
	for _, m := range ms {
		data, err := os.ReadFile(m)
		if err == nil && strings.Contains(string(data), "DATA RACE") {
			var keep []string
			for _, l := range strings.Split(string(data), "\n") {
				l = strings.TrimSpace(l)
				if strings.Contains(l, "textwire") || strings.HasPrefix(l, "Write at") || strings.HasPrefix(l, "Read at") || strings.HasPrefix(l, "Previous") {
					keep = append(keep, l)
				}
				if len(keep) > 10 {
					break
				}
			}
			return strings.Join(keep, " ; ")
		}
	}
	return ""
}

func startProc(name string, args ...string) *proc { return startProcEnv(name, nil, args...) }

func startProcEnv(name string, env []string, args ...string) *proc {
	cmd := exec.Command(name, args...)
	cmd.Env = append(os.Environ(), env...)
	cmd.Stderr = io.Discard
	in, _ := cmd.StdinPipe()
	outp, _ := cmd.StdoutPipe()
	if err := cmd.Start(); err != nil {
		fmt.Fprintln(os.Stderr, "cannot start", name, err)
		os.Exit(2)
	}
	p := &proc{cmd: cmd, in: in, out: bufio.NewReaderSize(outp, 1<<20), ch: make(chan string, 1)}
	go func() {
		for {
			line, err := p.out.ReadString('\n')
			if line != "" {
				p.ch <- strings.TrimRight(line, "\n")
			}
			if err != nil {
				close(p.ch)
				return
			}
		}
	}()
	return p
}

func (p *proc) kill() {
	p.in.Close()
	p.cmd.Process.Kill()
	p.cmd.Wait()
}

// ask sends one request and waits for the answer with that id
func (p *proc) ask(id int, req string, d time.Duration) (string, bool) {
	if _, err := io.WriteString(p.in, fmt.Sprintf("%d\t%s\n", id, req)); err != nil {
		return "CRASH write failed", false
	}
	timer := time.NewTimer(d)
	defer timer.Stop()
	for {
		select {
		case line, ok := <-p.ch:
			if !ok {
				return "CRASH process exited", false
			}
			parts := strings.SplitN(line, "\t", 2)
			if len(parts) == 2 && parts[0] == fmt.Sprint(id) {
				return parts[1], true
			}
			if strings.HasPrefix(line, "CRASH") {
				return line, false
			}
		case <-timer.C:
			return "HANG no answer within " + d.String(), false
		}
	}
}

func runAll(cases []*Case) {
	nShards := 16
	if len(cases) < 64 {
		nShards = 1
	} else if len(cases) < 2000 {
		nShards = 4
	}
	self, _ := os.Executable()
	var wg sync.WaitGroup
	for s := 0; s < nShards; s++ {
		wg.Add(1)
		go func(s int) {
			defer wg.Done()
			cwd := filepath.Join(scratch, fmt.Sprintf("w%d", s), "c")
			os.MkdirAll(filepath.Dir(cwd), 0o755)
			var w, d *proc
			defer func() {
				if w != nil {
					w.kill()
				}
				if d != nil {
					d.kill()
				}
			}()
			for i := s; i < len(cases); i += nShards {
				c := cases[i]
				if atomic.LoadInt64(&confirmedHangs) >= 3 && atomic.LoadInt64(&silentCases) >= silentCasesLimit {
					c.notRun = true
					c.impl = "NOT-RUN after many silent cases"
					continue
				}
				fields := c.Fields
				if c.Kind == "hist" || c.Kind == "conc" || c.Kind == "loadconc" {
					fields = append([]string{hx(cwd)}, c.Fields...)
				}
				if c.Kind == "conc" {
					// a dedicated race-enabled worker per case; a detected race ends the process
					logBase := filepath.Join(scratch, fmt.Sprintf("race-%d", i))
					rw := startProcEnv(raceWorkerPath, []string{"GORACE=halt_on_error=1 log_path=" + logBase}, "worker")
					ans, ok := rw.ask(i, c.Kind+"\t"+strings.Join(fields, "\t"), 120*time.Second)
					rw.kill()
					if !ok && strings.HasPrefix(ans, "HANG") && readRaceLog(logBase) == "" && atomic.LoadInt64(&confirmedHangs) < 3 {
						// a race-enabled workload that is slow on a loaded machine is not a hang: once more, with a long limit
						rw = startProcEnv(raceWorkerPath, []string{"GORACE=halt_on_error=1 log_path=" + logBase}, "worker")
						ans, ok = rw.ask(i, c.Kind+"\t"+strings.Join(fields, "\t"), 30*time.Minute)
						rw.kill()
						if !ok {
							atomic.AddInt64(&confirmedHangs, 1)
						}
					}
					if !ok {
						if rep := readRaceLog(logBase); rep != "" {
							ans = "CRASH DATA RACE " + rep
						}
					}
					c.impl = ans
					continue
				}
				req := c.Kind + "\t" + strings.Join(fields, "\t")
				to := c.Timeout
				if to == 0 {
					to = 2 * time.Second
				}
				if w == nil {
					w = startProc(self, "worker")
				}
				ans, ok := w.ask(i, req, to)
				if !ok && strings.HasPrefix(ans, "HANG") && atomic.LoadInt64(&confirmedHangs) < 3 {
					// no answer in time: on a loaded machine that is not yet a hang. Ask a fresh worker
					// again, alone and with a long limit; only a second silence counts (at most three
					// such waits per run, further silent cases keep the short limit)
					w.kill()
					w = startProc(self, "worker")
					long := 90 * time.Second
					if 5*to > long {
						long = 5 * to
					}
					ans, ok = w.ask(i, req, long)
					if !ok {
						atomic.AddInt64(&confirmedHangs, 1)
					}
				}
				c.impl = ans
				if !ok {
					if strings.HasPrefix(ans, "HANG") {
						atomic.AddInt64(&silentCases, 1)
					}
					w.kill()
					w = nil
				}
				if c.NoModel {
					continue
				}
				if d == nil {
					d = startProc(driverPath)
				}
				ans, ok = d.ask(i, req, 20*time.Second)
				c.model = ans
				if !ok {
					c.model = "UNSUPPORTED model " + ans
					d.kill()
					d = nil
					continue
				}
				if c.Spec != nil {
					ans, ok = d.ask(i, "spec\t"+strings.Join(c.Spec, "\t"), 20*time.Second)
					c.spec = ans
					if !ok {
						c.spec = "NOSPEC " + ans
						d.kill()
						d = nil
					}
				}
			}
		}(s)
	}
	wg.Wait()
}

// ---------------------------------------------------------------------------------------------
// evidence

func writeEvidence(id, tier string, seed int64, cases []*Case, stats map[string]*famStat, distinct, nviol int, wall float64,
	obligations, discharged int, theorems, axioms, checker, proofBroken string) {
	fams := map[string]any{}
	var samples []any
	names := make([]string, 0, len(stats))
	for n := range stats {
		names = append(names, n)
	}
	sort.Strings(names)
	for _, n := range names {
		st := stats[n]
		fams[n] = map[string]any{"cases": st.n, "tags": st.tags, "implementation_outcomes": topN(st.outcomes, 12)}
		for _, s := range st.samples {
			s["family"] = n
			samples = append(samples, s)
		}
	}
	var thms []string
	if theorems != "" {
		thms = strings.Split(theorems, ",")
	}
	for _, t := range thms {
		if len(samples) < 40 {
			samples = append(samples, map[string]string{"obligation": t})
		}
	}
	if len(samples) == 0 {
		samples = append(samples, "no case generated")
	}
	ev := map[string]any{
		"property_id": id,
		"tier":        tier,
		"seed":        seed,
		"level":       "proof",
		"coverage": map[string]any{
			"obligations":         obligations,
			"discharged":          discharged,
			"checker_cmd":         checker,
			"theorems":            thms,
			"axioms_found":        axioms,
			"broken_obligation":   proofBroken,
			"trusted_base":        trustedBase(),
			"evaluations":         len(cases),
			"distinct_nontrivial": distinct,
			"rule":                "correspondence cases are generated per family (exhaustive families enumerate their whole domain, random ones draw from one splitmix64 stream seeded by VERIF_SEED); a case counts as non-trivial unless its family marks it trivial (empty input, no construct of the property in it); distinct = distinct protocol requests",
			"families":            fams,
			"samples":             samples,
		},
		"assumptions": []string{
			"the theorems are about the hand-written Lean model; the tie to /repo is the regenerated Facts.lean (TIE-1) and this run's differential correspondence (TIE-2), which samples",
			"Go library behaviour (strconv, html, strings, unicode, reflect, filepath, os) is modelled from its documentation",
		},
		"wall_s":     wall,
		"violations": nviol,
	}
	data, _ := json.MarshalIndent(ev, "", " ")
	os.MkdirAll(filepath.Join(verifDir, "evidence"), 0o755)
	os.WriteFile(filepath.Join(verifDir, "evidence", id+".json"), data, 0o644)
}

func topN(m map[string]int, n int) map[string]int {
	type kv struct {
		k string
		v int
	}
	var xs []kv
	for k, v := range m {
		xs = append(xs, kv{k, v})
	}
	sort.Slice(xs, func(i, j int) bool { return xs[i].v > xs[j].v || (xs[i].v == xs[j].v && xs[i].k < xs[j].k) })
	out := map[string]int{}
	for i, x := range xs {
		if i >= n {
			break
		}
		out[x.k] = x.v
	}
	return out
}

func trustedBase() []string {
	return []string{
		"Lean 4.33.0 kernel (thorough tier: re-checked by leanchecker); axioms allowed: propext, Classical.choice, Quot.sound",
		"theorem statements and specification definitions in /verif/lean/TwSpec and /verif/lean/TwProofs/C*.lean",
		"fact extractor /verif/go/cmd/extract (go/parser + go/types, syntactic transcription of tables and code sites)",
		"this correspondence harness and its generators (differential testing: it samples)",
		"the hand-written model /verif/lean/TwModel as a description of the Go code's control structure and of Go library behaviour",
		"Go toolchain, race detector, C compiler used for the model driver",
	}
}
