package main

// Worker mode: runs the real textwire code in-process on protocol requests read from stdin and
// answers in the same canonical format as the Lean driver. A panic is recovered per request;
// hangs and crashes are handled by the parent (deadline, restart).

import (
	"sync/atomic"
	"bufio"
	"fmt"
	"net/http/httptest"
	"os"
	"path/filepath"
	"reflect"
	"runtime"
	"runtime/debug"
	"sort"
	"strconv"
	"strings"
	"time"

	textwire "github.com/textwire/textwire/v2"
	"github.com/textwire/textwire/v2/config"
	"github.com/textwire/textwire/v2/lexer"
	"github.com/textwire/textwire/v2/token"
)

var ttNames = []string{"ILLEGAL", "EOF", "IDENT", "HTML", "INT", "FLOAT", "STR", "ADD", "SUB", "MUL", "DIV", "MOD", "INC", "DEC", "NOT", "ASSIGN", "EQ", "NOT_EQ", "LTHAN", "GTHAN", "LTHAN_EQ", "GTHAN_EQ", "LBRACES", "RBRACES", "LBRACE", "RBRACE", "LPAREN", "RPAREN", "LBRACKET", "RBRACKET", "QUESTION", "COLON", "COMMA", "DOT", "SEMI", "TRUE", "FALSE", "NIL", "IN", "IF", "ELSE", "ELSE_IF", "END", "FOR", "USE", "EACH", "BREAK_IF", "CONTINUE_IF", "INSERT", "RESERVE", "BREAK", "CONTINUE", "COMPONENT", "SLOT", "DUMP"}

func ttName(t token.TokenType) string {
	if int(t) >= 0 && int(t) < len(ttNames) {
		return ttNames[t]
	}
	return "TT" + strconv.Itoa(int(t))
}

func workerMain() {
	debug.SetMemoryLimit(1 << 30)
	parent := os.Getppid()
	go func() { // memory watchdog: an exploding allocation must not take the machine down
		for {
			time.Sleep(50 * time.Millisecond)
			if os.Getppid() != parent { // the harness is gone (killed): a worker spinning in a hung call must not stay behind
				os.Exit(4)
			}
			var ms runtime.MemStats
			runtime.ReadMemStats(&ms)
			if ms.HeapAlloc > 3<<30 {
				fmt.Println("CRASH out of memory")
				os.Exit(3)
			}
		}
	}()
	in := bufio.NewReaderSize(os.Stdin, 1<<20)
	out := bufio.NewWriter(os.Stdout)
	home, _ := os.Getwd()
	for {
		line, err := in.ReadString('\n')
		if line == "" && err != nil {
			return
		}
		line = strings.TrimRight(line, "\r\n")
		fields := strings.Split(line, "\t")
		ans := "BADREQ"
		if len(fields) >= 2 {
			ans = safely(func() string { return handleReq(fields[1], fields[2:], home) })
		}
		fmt.Fprintf(out, "%s\t%s\n", fields[0], ans)
		out.Flush()
		if err != nil {
			return
		}
	}
}

func safely(f func() string) (res string) {
	defer func() {
		if r := recover(); r != nil {
			res = "PANIC " + panicSite() + " :: " + strings.ReplaceAll(fmt.Sprint(r), "\n", " ")
		}
	}()
	return f()
}

// panicSite: the first frame inside the textwire module below the panic
func panicSite() string {
	pcs := make([]uintptr, 64)
	n := runtime.Callers(3, pcs)
	frames := runtime.CallersFrames(pcs[:n])
	for {
		fr, more := frames.Next()
		if strings.Contains(fr.Function, "textwire/textwire/v2") {
			return fr.Function[strings.LastIndex(fr.Function, "/")+1:]
		}
		if !more {
			break
		}
	}
	return "?"
}

func handleReq(kind string, f []string, home string) string {
	poison()
	switch kind {
	case "lex":
		return implLex(unhx(f[0]))
	case "eval":
		return implEval(unhx(f[0]), termToGV(parseTerm(f[1])))
	case "hist":
		return implHist(unhx(f[0]), parseTerm(f[1]), f[2:], home)
	case "conc":
		return implConc(unhx(f[0]), parseTerm(f[1]), f[2:], home)
	case "loadconc":
		return implLoadConc(unhx(f[0]), parseTerm(f[1]), f[2:], home)
	}
	return "BADKIND"
}

func implLex(src string) string {
	l := lexer.New(src)
	var parts []string
	var toks []token.Token
	limit := len(src) + 3
	for i := 0; ; i++ {
		if i > limit {
			return "LOOP " + strings.Join(parts, ",")
		}
		t := l.NextToken()
		toks = append(toks, t)
		parts = append(parts, fmt.Sprintf("%s:%s:%d:%d:%d:%d", ttName(t.Type), hxTok(t.Literal), t.Pos.StartLine, t.Pos.StartCol, t.Pos.EndLine, t.Pos.EndCol))
		if t.Type == token.EOF {
			break
		}
	}
	inside := "0"
	if l.IsInsideCode() {
		inside = "1"
	}
	return "TOKS " + strings.Join(parts, ",") + " inside=" + inside + " cover=" + coverOf(src, toks)
}

// coverOf: for every byte of the source, the indices of the (non-EOF) tokens whose
// Position.Contains (the real one) accepts the byte's line and column; "-" = none,
// several indices are joined by '+'; bytes are separated by '.'
func coverOf(src string, toks []token.Token) string {
	var b strings.Builder
	l, c := uint(0), uint(0)
	for i := 0; i < len(src); i++ {
		if i > 0 {
			b.WriteByte('.')
		}
		n := 0
		for k, t := range toks {
			if t.Type == token.EOF {
				continue
			}
			if t.Pos.Contains(l, c) {
				if n > 0 {
					b.WriteByte('+')
				}
				b.WriteString(strconv.Itoa(k))
				n++
			}
		}
		if n == 0 {
			b.WriteByte('-')
		}
		if src[i] == '\n' {
			l++
			c = 0
		} else {
			c++
		}
	}
	return b.String()
}

// the Lean driver prints an empty literal as the empty string
func hxTok(s string) string {
	if s == "" {
		return ""
	}
	return hx(s)
}

// poison: calls that a correct implementation forgets completely (C16) but that leave something
// behind when state is carried between calls: a loop that fails after it has produced output, a
// render refused for an unsupported value after valid keys, assignments without data, a source
// that does not parse (twice).  Run before every request.
var poisonTurn int

// cycleCount is the memory of custom string function number 4
var cycleCount int

// the calls whose leftovers would show when state is carried from one call to the next; each is a
// complete, independent use of the API
var poisons = []func(){
	func() {
		textwire.EvaluateString("P@each(v in [1, 2, 3])<{{ v }}>@if(v == 2){{ nosuchPoison }}@end@end", nil)
	},
	func() {
		textwire.EvaluateString("P@for(i = 0; i < 3; i++)[{{ i }}]@if(i == 1){{ 1 / 0 }}@end@end", nil)
	},
	func() { textwire.EvaluateString("{{ poisonVar = 1 }}{{ x = \"s\" }}{{ poisonVar }}", nil) },
	func() { textwire.EvaluateString("{{ 1 + }}", nil); textwire.EvaluateString("{{ 1 + }}", nil) },
	func() { textwire.EvaluateString("{{ v = 2.5 }}{{ n = \"s\" }}", map[string]any{}) },
	// templates rejected while the lexer / parser is inside a directive, a string, a comment, a block, a call
	func() { textwire.EvaluateString("<p>@if</p>", nil) },
	func() { textwire.EvaluateString("@each(", nil) },
	func() { textwire.EvaluateString("a{{ \"unterminated", nil) },
	func() { textwire.EvaluateString("b{{-- open", nil) },
	func() { textwire.EvaluateString("@component(\"c\", {a: ", nil) },
	func() { textwire.EvaluateString("@if(true)open{{ (1 + ", nil) },
	func() { textwire.EvaluateString("{{ [1, [2, ", nil) },
	// a loop that fails in its post statement, nested loops that succeed, strings with escapes, a dump
	func() { textwire.EvaluateString("@for(i = 0; i < 3; i.str())x@end", nil) },
	func() {
		textwire.EvaluateString("@each(v in [1, 2])@each(w in [3, 4])[{{ v }}{{ w }}]@end@end@for(i = 0; i < 2; i++)@for(j = 0; j < 2; j++){{ i }}{{ j }}@end@end", nil)
	},
	func() { textwire.EvaluateString("{{ \"say \\\"hi\\\"\" }} and {{ 'it\\'s' }}", nil) },
	func() { textwire.EvaluateString("@dump([1, {a: \"s\"}], 2.5, nil)", nil) },
	// a refused data map: whatever was converted before the unsupported value
	func() {
		textwire.EvaluateString("{{ aPoison }}", map[string]any{"aPoison": "x", "who": 1.5, "d": "stale", "x": true, "v": "s", "n": "s", "flag": "s",
			"items": 1, "obj": 1, "r": 1, "xs": "s", "t": 1.5, "name": 7, "zPoison": make(chan int)})
	},
}

// poison runs all of them before every request, each time starting one further, so that every one of
// them is the last call before some request
func poison() {
	defer func() { _ = recover() }()
	n := len(poisons)
	poisonTurn++
	for k := 0; k < n; k++ {
		func() {
			defer func() { _ = recover() }()
			poisons[(poisonTurn+k)%n]()
		}()
	}
}

func implEval(src string, data *GV) string {
	first := implEvalOnce(src, data)
	second := implEvalOnce(src, data)
	if first != second {
		return "UNSTABLE the same call answered differently the second time: first=" + first + " second=" + second
	}
	return first
}

// dataKept: the map handed to the API equals a fresh realisation of the same value afterwards
func dataKept(gv *GV, dm map[string]any) bool {
	if gv == nil || gv.hasOther() {
		return true
	}
	fresh := gv.DataMap()
	return reflect.DeepEqual(dm, fresh) || fmt.Sprintf("%#v", dm) == fmt.Sprintf("%#v", fresh)
}

func implEvalOnce(src string, data *GV) string {
	textwire.VerifReset()
	dm := data.DataMap()
	out, err := textwire.EvaluateString(src, dm)
	// the caller's data is never modified by rendering
	if !data.hasOther() && !reflect.DeepEqual(dm, data.DataMap()) && fmt.Sprintf("%#v", dm) != fmt.Sprintf("%#v", data.DataMap()) {
		// (a NaN is not equal to itself: the printed forms decide then)
		return "MUTATED the data map was modified by the render"
	}
	if err != nil {
		return canonErr(err.Error(), "")
	}
	return "OK " + hxOut(out)
}

func hxOut(s string) string {
	if s == "" {
		return ""
	}
	return hx(s)
}

// ---- custom function library (mirrors TwModel.Builtins.callCustom)

func descOf(v any) string {
	switch x := v.(type) {
	case nil:
		return "nil"
	case bool:
		if x {
			return "b:true"
		}
		return "b:false"
	case int64:
		return "i:" + strconv.FormatInt(x, 10)
	case int:
		return "i:" + strconv.Itoa(x)
	case float64:
		return "f:" + strconv.FormatFloat(x, 'f', -1, 64)
	case string:
		return "s:" + x
	case []any:
		return "[" + descList(x) + "]"
	case map[string]any:
		var sb strings.Builder
		sb.WriteString("{")
		for _, k := range sortedKeys(x) {
			sb.WriteString(k + "=" + descOf(x[k]) + ",")
		}
		return sb.String() + "}"
	}
	return fmt.Sprintf("?%T", v)
}

func descList(xs []any) string {
	var sb strings.Builder
	for _, x := range xs {
		sb.WriteString(descOf(x) + ",")
	}
	return sb.String()
}

func register(ty, name string, fid int) error {
	if fid == 9 {
		// a nil function value: the name is taken, nothing is callable
		switch ty {
		case "str":
			return textwire.RegisterStrFunc(name, nil)
		case "arr":
			return textwire.RegisterArrFunc(name, nil)
		case "int":
			return textwire.RegisterIntFunc(name, nil)
		case "float":
			return textwire.RegisterFloatFunc(name, nil)
		case "bool":
			return textwire.RegisterBoolFunc(name, nil)
		}
	}
	switch ty {
	case "str":
		if fid == 0 {
			return textwire.RegisterStrFunc(name, func(s string, args ...any) string { return s + "|" + descList(args) })
		}
		if fid == 5 {
			// looks at its first argument and scribbles over it afterwards (the argument is the function's own copy)
			return textwire.RegisterStrFunc(name, func(s string, args ...any) string {
				if len(args) == 0 {
					return "none"
				}
				switch a := args[0].(type) {
				case []any:
					if len(a) == 0 {
						return "none"
					}
					head := descOf(a[0])
					a[0] = "gone"
					sort.Slice(a, func(i, j int) bool { return descOf(a[i]) > descOf(a[j]) })
					return head
				case map[string]any:
					n := len(a)
					for k := range a {
						delete(a, k)
					}
					a["added"] = 1
					return strconv.Itoa(n)
				}
				return "none"
			})
		}
		if fid == 4 {
			// a function with a memory: "odd", "even", "odd", … (counted from the start of the history)
			return textwire.RegisterStrFunc(name, func(s string, args ...any) string {
				cycleCount++
				if cycleCount%2 == 1 {
					return "odd"
				}
				return "even"
			})
		}
		return textwire.RegisterStrFunc(name, func(s string, args ...any) string { return "const" })
	case "arr":
		if fid == 2 {
			// edits the slice it was given in place and returns that same slice
			return textwire.RegisterArrFunc(name, func(a []any, args ...any) []any {
				if len(args) == 0 {
					return a
				}
				for i := range a {
					if descOf(a[i]) == descOf(args[0]) {
						a[i] = "***"
					}
				}
				return a
			})
		}
		if fid == 0 {
			return textwire.RegisterArrFunc(name, func(a []any, args ...any) []any {
				out := append([]any{}, a...)
				return append(out, args...)
			})
		}
		if fid == 3 {
			// extends the slice it was given, first by a value of its own, then by its arguments
			return textwire.RegisterArrFunc(name, func(a []any, args ...any) []any {
				a = append(a, "tag")
				a = append(a, args...)
				return a
			})
		}
		return textwire.RegisterArrFunc(name, func(a []any, args ...any) []any { return []any{descList(a), descList(args)} })
	case "int":
		if fid == 0 {
			return textwire.RegisterIntFunc(name, func(i int, args ...any) int { return i + len(args) })
		}
		return textwire.RegisterIntFunc(name, func(i int, args ...any) int { return i * 2 })
	case "float":
		if fid == 0 {
			return textwire.RegisterFloatFunc(name, func(f float64, args ...any) float64 { return f / 2 })
		}
		return textwire.RegisterFloatFunc(name, func(f float64, args ...any) float64 { return f + float64(len(args)) })
	case "bool":
		if fid == 0 {
			return textwire.RegisterBoolFunc(name, func(b bool, args ...any) bool { return !b })
		}
		return textwire.RegisterBoolFunc(name, func(b bool, args ...any) bool { return len(args) > 0 })
	}
	return fmt.Errorf("bad type")
}

// ---- histories

func implHist(cwd string, fsT *term, ops []string, home string) string {
	// build the file tree in cwd
	os.RemoveAll(cwd)
	if err := os.MkdirAll(cwd, 0o755); err != nil {
		return "HARNESSERR " + err.Error()
	}
	defer func() {
		os.Chdir(home)
		os.RemoveAll(cwd)
	}()
	for _, e := range fsT.list {
		if len(e.list) < 2 {
			continue
		}
		p := filepath.Join(cwd, unhx(e.list[0].atom))
		switch e.list[1].atom {
		case "d":
			os.MkdirAll(p, 0o755)
		case "f":
			os.MkdirAll(filepath.Dir(p), 0o755)
			os.WriteFile(p, []byte(unhx(e.list[2].atom)), 0o644)
		case "x":
			os.MkdirAll(filepath.Dir(p), 0o755)
			os.Symlink("/nonexistent/verif-dangling", p)
		case "l":
			os.MkdirAll(filepath.Dir(p), 0o755)
			os.Symlink(filepath.Join(cwd, unhx(e.list[2].atom)), p)
		}
	}
	if err := os.Chdir(cwd); err != nil {
		return "HARNESSERR " + err.Error()
	}
	textwire.VerifReset()
	cycleCount = 0
	var tpl *textwire.Template
	var outs []string
	for _, opS := range ops {
		op := parseTerm(opS)
		outs = append(outs, safely(func() string { return implOp(op, &tpl, cwd) }))
	}
	return strings.Join(outs, " | ")
}

func implOp(op *term, tpl **textwire.Template, cwd string) string {
	if len(op.list) == 0 {
		return "BADOP"
	}
	a := op.list[1:]
	switch op.list[0].atom {
	case "NEW":
		var opt *config.Config
		if a[0].atom != "1" {
			opt = &config.Config{TemplateDir: unhx(a[1].atom), TemplateExt: unhx(a[2].atom), ErrorPagePath: unhx(a[3].atom), DebugMode: a[4].atom == "1"}
		}
		t, err := textwire.NewTemplate(opt)
		if opt != nil {
			// the configuration struct is the caller's: what happens to it afterwards is no business of the library
			opt.TemplateDir, opt.TemplateExt, opt.ErrorPagePath, opt.DebugMode = "scribbled/over", ".zz", "nosuch-error-page", !opt.DebugMode
		}
		if err != nil {
			*tpl = nil
			if t != nil {
				return "NEWERR-WITH-TEMPLATE " + canonErr(err.Error(), cwd)
			}
			return "NEWERR " + canonErr(err.Error(), cwd)
		}
		*tpl = t
		names := t.VerifTemplateNames()
		sort.Strings(names)
		var hs []string
		for _, n := range names {
			hs = append(hs, hx(n))
		}
		return "NEWOK " + strings.Join(hs, ",")
	case "RESET":
		textwire.VerifReset()
		*tpl = nil
		return "RESETOK"
	case "WRITE":
		fp := filepath.Join(cwd, unhx(a[0].atom))
		os.MkdirAll(filepath.Dir(fp), 0o755)
		if err := os.WriteFile(fp, []byte(unhx(a[1].atom)), 0o644); err != nil {
			return "HARNESSERR " + err.Error()
		}
		return "WRITEOK"
	case "RM":
		if err := os.Remove(filepath.Join(cwd, unhx(a[0].atom))); err != nil {
			return "HARNESSERR " + err.Error()
		}
		return "RMOK"
	case "REG":
		fid, _ := strconv.Atoi(a[2].atom)
		if err := register(a[0].atom, unhx(a[1].atom), fid); err != nil {
			return "REGERR " + canonErr(err.Error(), cwd)
		}
		return "REGOK"
	case "STR":
		if *tpl == nil {
			return "NOTPL"
		}
		gv := termToGV(a[1])
		dm := gv.DataMap()
		out, ferr := (*tpl).String(unhx(a[0].atom), dm)
		if !dataKept(gv, dm) {
			return "MUTATED the data map was modified by String"
		}
		if ferr != nil {
			if out != "" {
				return "OUTPUT-WITH-ERROR " + hx(out)
			}
			return canonFail(strconv.Itoa(int(ferr.Line())), ferr.Filepath(), ferr.Message(), cwd)
		}
		return "OK " + hxOut(out)
	case "RESP":
		if *tpl == nil {
			return "NOTPL"
		}
		rec := httptest.NewRecorder()
		gv := termToGV(a[1])
		dm := gv.DataMap()
		err := (*tpl).Response(rec, unhx(a[0].atom), dm)
		if !dataKept(gv, dm) {
			return "MUTATED the data map was modified by Response"
		}
		e := "nil"
		if err != nil {
			e = canonErr(err.Error(), cwd)
		}
		// what a client receives: a declared Content-Length cuts the body off there (net/http refuses
		// to write more), and a longer one leaves the response incomplete
		body := rec.Body.String()
		if cl := rec.Header().Get("Content-Length"); cl != "" {
			if n, perr := strconv.Atoi(cl); perr == nil && n >= 0 {
				if n < len(body) {
					body = body[:n]
				} else if n > len(body) {
					return fmt.Sprintf("RESP-INCOMPLETE declared %d bytes, wrote %d", n, len(body))
				}
			}
		}
		return "RESP " + hxOut(body) + " " + e
	case "EVS":
		gv := termToGV(a[1])
		dm := gv.DataMap()
		out, err := textwire.EvaluateString(unhx(a[0].atom), dm)
		if !dataKept(gv, dm) {
			return "MUTATED the data map was modified by EvaluateString"
		}
		if err != nil {
			return canonErr(err.Error(), cwd)
		}
		return "OK " + hxOut(out)
	case "EVFR":
		// the path as the caller wrote it, relative to the working directory
		out, err := textwire.EvaluateFile(unhx(a[0].atom), termToGV(a[1]).DataMap())
		if err != nil {
			return canonErr(err.Error(), cwd)
		}
		return "OK " + hxOut(out)
	case "EVF":
		p := unhx(a[0].atom)
		out, err := textwire.EvaluateFile(filepath.Join(cwd, p), termToGV(a[1]).DataMap())
		if err != nil {
			return canonErr(err.Error(), cwd)
		}
		return "OK " + hxOut(out)
	}
	return "BADOP"
}

// ---- concurrency workloads (this code is meaningful in the binary built with -race)

// implConc: fields after cwd and fs: G, rounds, gomaxprocs, then the operations. Operations
// before the marker "--" are set-up (NewTemplate, Register*) and run once; the others are run
// sequentially for a baseline and then by G goroutines at the same time.
var coldBatch int64

// implLoadConc: the tree is loaded again and again while other goroutines evaluate strings and files
// (a server that reloads its templates while it serves): every load answers what it answers alone.
// fields: G, loads, the NEW operation, then the operations the other goroutines repeat
func implLoadConc(cwd string, fsT *term, f []string, home string) string {
	G, _ := strconv.Atoi(f[0])
	loads, _ := strconv.Atoi(f[1])
	newOp := parseTerm(f[2])
	var side []*term
	for _, o := range f[3:] {
		side = append(side, parseTerm(o))
	}
	os.RemoveAll(cwd)
	os.MkdirAll(cwd, 0o755)
	defer func() {
		os.Chdir(home)
		os.RemoveAll(cwd)
	}()
	for _, e := range fsT.list {
		if len(e.list) >= 3 && e.list[1].atom == "f" {
			p := filepath.Join(cwd, unhx(e.list[0].atom))
			os.MkdirAll(filepath.Dir(p), 0o755)
			os.WriteFile(p, []byte(unhx(e.list[2].atom)), 0o644)
		}
	}
	os.Chdir(cwd)
	textwire.VerifReset()
	var t0 *textwire.Template
	want := safely(func() string { return implOp(newOp, &t0, cwd) })
	stop := make(chan struct{})
	done := make(chan struct{})
	for gI := 0; gI < G; gI++ {
		go func(gI int) {
			defer func() { done <- struct{}{} }()
			for i := 0; ; i++ {
				select {
				case <-stop:
					return
				default:
				}
				var t *textwire.Template
				safely(func() string { return implOp(side[(i+gI)%len(side)], &t, cwd) })
			}
		}(gI)
	}
	bad := ""
	for i := 0; i < loads && bad == ""; i++ {
		var t *textwire.Template
		if got := safely(func() string { return implOp(newOp, &t, cwd) }); got != want {
			bad = fmt.Sprintf("LOADCONC mismatch load=%d got=%s want=%s", i, got, want)
		}
	}
	close(stop)
	for gI := 0; gI < G; gI++ {
		<-done
	}
	if bad != "" {
		return bad
	}
	return fmt.Sprintf("LOADCONC ok loads=%d answer=%s", loads, clipS(want, 60))
}

func clipS(s string, n int) string {
	if len(s) > n {
		return s[:n]
	}
	return s
}

func implConc(cwd string, fsT *term, f []string, home string) string {
	G, _ := strconv.Atoi(f[0])
	rounds, _ := strconv.Atoi(f[1])
	procs, _ := strconv.Atoi(f[2])
	ops := f[3:]
	old := runtime.GOMAXPROCS(procs)
	defer runtime.GOMAXPROCS(old)
	os.RemoveAll(cwd)
	os.MkdirAll(cwd, 0o755)
	defer func() {
		os.Chdir(home)
		os.RemoveAll(cwd)
	}()
	for _, e := range fsT.list {
		if len(e.list) >= 3 && e.list[1].atom == "f" {
			p := filepath.Join(cwd, unhx(e.list[0].atom))
			os.MkdirAll(filepath.Dir(p), 0o755)
			os.WriteFile(p, []byte(unhx(e.list[2].atom)), 0o644)
		}
	}
	os.Chdir(cwd)
	textwire.VerifReset()
	// tpl serves the concurrent calls and is not touched before them (its first renders overlap);
	// tplBase is a second Template loaded from the same tree, on which the calls are run alone
	var tpl, tplBase *textwire.Template
	i := 0
	for ; i < len(ops) && ops[i] != "--"; i++ {
		op := parseTerm(ops[i])
		if r := implOp(op, &tpl, cwd); strings.HasPrefix(r, "NEWERR") || strings.HasPrefix(r, "REGERR") {
			return "CONC setup failed: " + r
		}
		if len(op.list) > 0 && op.list[0].atom == "NEW" {
			implOp(op, &tplBase, cwd)
		}
	}
	var work []*term
	for j := i + 1; j < len(ops); j++ {
		work = append(work, parseTerm(ops[j]))
	}
	// every call "run alone": as the first call after the setup, in a state that no other call has touched.
	// The setup is then repeated for the Templates that serve the rest of the workload.
	alone := make([]string, len(work))
	for k, w := range work {
		textwire.VerifReset()
		var t1 *textwire.Template
		for j := 0; j < i; j++ {
			implOp(parseTerm(ops[j]), &t1, cwd)
		}
		t := t1
		alone[k] = safely(func() string { return implOp(w, &t, cwd) })
	}
	textwire.VerifReset()
	tpl, tplBase = nil, nil
	for j := 0; j < i; j++ {
		op := parseTerm(ops[j])
		implOp(op, &tpl, cwd)
		if len(op.list) > 0 && op.list[0].atom == "NEW" {
			implOp(op, &tplBase, cwd)
		}
	}
	// cold phase, before anything was rendered sequentially: every goroutine converts struct types
	// that this process has never seen (whatever the conversion remembers per type is built concurrently)
	{
		coldErr := make(chan string, G)
		coldDone := make(chan struct{})
		batch := atomic.AddInt64(&coldBatch, 1)
		for gI := 0; gI < G; gI++ {
			go func(gI int) {
				defer func() { coldDone <- struct{}{} }()
				for r := 0; r < 12; r++ {
					st := reflect.New(reflect.StructOf([]reflect.StructField{
						{Name: "V", Type: reflect.TypeOf(0)},
						{Name: fmt.Sprintf("X%d_%d_%d", batch, gI, r), Type: reflect.TypeOf("")},
					})).Elem()
					st.Field(0).SetInt(int64(7 + r))
					got := safely(func() string {
						out, err := textwire.EvaluateString("{{ d.v }}|{{ d }}", map[string]any{"d": st.Interface()})
						if err != nil {
							return "ERR " + err.Error()
						}
						return out
					})
					if !strings.HasPrefix(got, strconv.Itoa(7+r)+"|") {
						select {
						case coldErr <- got:
						default:
						}
						return
					}
				}
			}(gI)
		}
		for gI := 0; gI < G; gI++ {
			<-coldDone
		}
		select {
		case e := <-coldErr:
			return "CONC mismatch in the cold phase (first renders of new struct types): " + e
		default:
		}
	}
	base := make([]string, len(work))
	for k, w := range work {
		t := tplBase
		base[k] = safely(func() string { return implOp(w, &t, cwd) })
		if base[k] != alone[k] {
			return fmt.Sprintf("CONC mismatch with the call run alone op=%d after-other-calls=%s alone=%s", k, base[k], alone[k])
		}
	}
	type bad struct {
		k         int
		got, want string
	}
	errs := make(chan bad, G)
	done := make(chan struct{})
	n := 0
	for gI := 0; gI < G; gI++ {
		go func(gI int) {
			defer func() { done <- struct{}{} }()
			for r := 0; r < rounds; r++ {
				for j := range work {
					k := (j + gI) % len(work)
					t := tpl
					got := safely(func() string { return implOp(work[k], &t, cwd) })
					if got != base[k] {
						select {
						case errs <- bad{k, got, base[k]}:
						default:
						}
						return
					}
					if (r+j+gI)%3 == 0 {
						runtime.Gosched()
					}
				}
			}
		}(gI)
	}
	for gI := 0; gI < G; gI++ {
		<-done
		n++
	}
	select {
	case b := <-errs:
		return fmt.Sprintf("CONC mismatch op=%d got=%s want=%s", b.k, b.got, b.want)
	default:
	}
	// whatever the overlapping first renders left in the Template shows in later calls too
	for k, w := range work {
		t := tpl
		if got := safely(func() string { return implOp(w, &t, cwd) }); got != base[k] {
			return fmt.Sprintf("CONC mismatch after the concurrent phase op=%d got=%s want=%s", k, got, base[k])
		}
	}
	return fmt.Sprintf("CONC ok goroutines=%d ops=%d rounds=%d", G, len(work), rounds)
}
