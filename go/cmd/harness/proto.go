package main

// Line protocol shared with the Lean driver (see /verif/lean/Main.lean), the Go-value terms,
// and canonical formatting of what the implementation returns.

import (
	"net/url"
	"time"
	"encoding/hex"
	"fmt"
	"math"
	"reflect"
	"regexp"
	"sort"
	"strconv"
	"strings"
)

func hx(s string) string {
	if s == "" {
		return "-"
	}
	return hex.EncodeToString([]byte(s))
}

func unhx(s string) string {
	if s == "-" || s == "" {
		return ""
	}
	b, err := hex.DecodeString(s)
	if err != nil {
		return "?badhex?"
	}
	return string(b)
}

// GV mirrors the Lean type GoVal: a description of a Go value that can be realised with
// reflect and serialised as a term for the model.
type GV struct {
	K      string // N B I F S P PN L M T O
	B      bool
	I      int64
	IKind  reflect.Kind // concrete integer kind used when realising (int, int8, … uint64)
	F      float64
	F32    bool
	S      string
	Elems  []*GV   // L; P has one element
	Keys   []string // M, T
	Export []bool   // T
	Other  string   // O: chan | func | array | complex
	NilRef bool     // L / M realised as a nil slice / nil map
	Typed  bool     // L / M realised with the static element type of their (same-kind scalar) elements: []string, map[string]int64, …
	NKey   bool     // M realised with a named string type as key type (type lang string; map[lang]…)
	AKey   bool     // M realised with the key type any (map[any]…, every key a string)
}

func gvNil() *GV            { return &GV{K: "N"} }
func gvBool(b bool) *GV     { return &GV{K: "B", B: b} }
func gvInt(i int64) *GV     { return &GV{K: "I", I: i, IKind: reflect.Int64} }
func gvStr(s string) *GV    { return &GV{K: "S", S: s} }
func gvFloat(f float64) *GV { return &GV{K: "F", F: f} }
func gvList(xs ...*GV) *GV  { return &GV{K: "L", Elems: xs} }
func gvMap(kv ...any) *GV {
	g := &GV{K: "M"}
	for i := 0; i+1 < len(kv); i += 2 {
		g.Keys = append(g.Keys, kv[i].(string))
		g.Elems = append(g.Elems, kv[i+1].(*GV))
	}
	return g
}

func (g *GV) Term() string {
	switch g.K {
	case "N":
		return "N"
	case "PN":
		return "PN"
	case "B":
		if g.B {
			return "(B 1)"
		}
		return "(B 0)"
	case "I":
		return fmt.Sprintf("(I %d %d)", g.I, int(g.IKind))
	case "F":
		if g.F32 {
			return fmt.Sprintf("(F %016x 32)", math.Float64bits(float64(float32(g.F))))
		}
		return fmt.Sprintf("(F %016x 64)", math.Float64bits(g.F))
	case "S":
		return "(S " + hx(g.S) + ")"
	case "P":
		return "(P " + g.Elems[0].Term() + ")"
	case "L":
		var sb strings.Builder
		sb.WriteString("(L")
		if g.NilRef {
			sb.WriteString(" nilref")
		}
		if g.Typed {
			sb.WriteString(" typed")
		}
		for _, e := range g.Elems {
			sb.WriteString(" " + e.Term())
		}
		return sb.String() + ")"
	case "M":
		var sb strings.Builder
		sb.WriteString("(M")
		if g.NilRef {
			sb.WriteString(" nilref")
		}
		if g.Typed {
			sb.WriteString(" typed")
		}
		if g.NKey {
			sb.WriteString(" nkey")
		}
		if g.AKey {
			sb.WriteString(" akey")
		}
		for i, e := range g.Elems {
			sb.WriteString(" " + hx(g.Keys[i]) + " " + e.Term())
		}
		return sb.String() + ")"
	case "T":
		var sb strings.Builder
		sb.WriteString("(T")
		for i, e := range g.Elems {
			ex := "0"
			if g.Export[i] {
				ex = "1"
			}
			sb.WriteString(" " + hx(g.Keys[i]) + " " + ex + " " + e.Term())
		}
		return sb.String() + ")"
	case "O":
		return "(O " + g.Other + ")"
	case "NT":
		return fmt.Sprintf("(NT %d)", g.I)
	}
	return "(O bad)"
}

// named struct types: four different types that are all called "Rec" (function-local types of one package)
func namedStruct(idx int64) any {
	switch idx {
	case 0:
		type Rec struct {
			A int
			B string
		}
		return Rec{1, "x"}
	case 1:
		type Rec struct {
			B string
			C bool
			A int
		}
		return Rec{"y", true, 2}
	case 2:
		type Rec struct {
			Name  string
			inner int
			Tags  []string
		}
		return Rec{"n", 5, []string{"t"}}
	case 4:
		// reached through a pointer, and holding a pointer to its own first field
		type Node struct {
			Head   int
			Active *int
			Name   string
			Next   *Node
		}
		p := &Node{Head: 3, Name: "n"}
		p.Active = &p.Head
		p.Next = &Node{Head: 4, Name: "m"}
		p.Next.Active = &p.Head
		return p
	case 5:
		type Prof struct {
			Name string
			Age  int
		}
		p := &Prof{Name: "Ann", Age: 3}
		return map[string]any{"name": &p.Name, "profile": p, "again": p, "zname": &p.Name}
	case 6:
		type Prof struct {
			Name string
			Age  int
		}
		p := &Prof{Name: "Bo", Age: 4}
		arr := &[2]int{7, 8}
		sl := arr[:]
		return map[string]any{"a_profile": p, "b_name": &p.Name, "c_first": &arr[0], "d_all": &sl}
	case 7:
		// an embedded struct of an exported type: a field named after the type
		return embUser{EmbBase: EmbBase{ID: 1, Tag: "t"}, Name: "n"}
	case 8:
		// an embedded struct of an unexported type (not reachable), by value
		return embW{embInner: embInner{Secret: "s", Pub: 2}, Name: "w"}
	case 9:
		// an embedded nil pointer to an unexported type, and one to an exported type
		return embW2{Name: "w2"}
	case 10:
		// embedded pointers that point somewhere
		return &embW2{embInner: &embInner{Secret: "s", Pub: 3}, EmbBase: &EmbBase{ID: 4, Tag: "u"}, Name: "w3"}
	case 11:
		// an ordinary struct that also implements fmt.Stringer (value receiver): still a struct
		return mPrice{Amount: 12, Cur: "EUR"}
	case 12:
		// a struct that implements error
		return mErr{Code: 7, Msg: "boom"}
	case 13:
		// a pointer whose type has String, MarshalJSON and MarshalText (pointer receivers)
		return &mDoc{Title: "T", N: 2}
	case 14:
		return mLang("en") // a named string type with a String method: its bytes, not the method's text
	case 15:
		return mLevel(3) // a named integer type with a String method: the number
	case 16:
		return time.Duration(1500000000) // int64 underneath
	case 17:
		// nil containers of static types in struct fields: empty array / empty object, a nil pointer is nil
		return mBag{}
	case 18:
		return mRatio(2.5)
	case 19:
		return mFlag(true)
	case 20:
		// the same methods on the elements of containers
		return map[string]any{"prices": []mPrice{{1, "a"}, {2, "b"}}, "byName": map[string]mPrice{"x": {3, "c"}}, "langs": []mLang{"de", "fr"}, "levels": []mLevel{1, 2},
			"errs": []error{mErr{1, "e1"}}, "strs": []fmt.Stringer{mPrice{4, "d"}, mLang("it")}}
	case 21:
		// nil pointers whose types carry methods a converter might call (String with value and pointer receivers, Error, marshalers): nil, not a call
		return map[string]any{"d": (*mDoc)(nil), "p": (*mPrice)(nil), "t": (*time.Time)(nil), "u": (*url.URL)(nil), "e": (*mErr)(nil), "ok": 1}
	case 22:
		// the same as optional fields of a struct, beside a field that is set
		return mOpt{Name: "n", Price: &mPrice{Amount: 5, Cur: "USD"}}
	case 23:
		// ... and as typed nils inside interface-typed containers
		return []any{(*mDoc)(nil), (*time.Time)(nil), fmt.Stringer((*mDoc)(nil)), error((*mErr)(nil)), 7}
	}
	type Rec struct{}
	return Rec{}
}

type mOpt struct {
	Deleted *time.Time
	Site    *url.URL
	Doc     *mDoc
	Price   *mPrice
	Err     *mErr
	Name    string
}

// types that carry methods a converter might be tempted to call (fmt.Stringer, error, json / text marshalers)
type mPrice struct {
	Amount int
	Cur    string
}

func (p mPrice) String() string { return fmt.Sprintf("%d %s", p.Amount, p.Cur) }

type mErr struct {
	Code int
	Msg  string
}

func (e mErr) Error() string { return "E" + e.Msg }

type mDoc struct {
	Title string
	N     int
}

func (d *mDoc) String() string                { return "doc:" + d.Title }
func (d *mDoc) MarshalJSON() ([]byte, error)  { return []byte(`"json"`), nil }
func (d *mDoc) MarshalText() ([]byte, error)  { return []byte("text"), nil }
func (d *mDoc) GoString() string              { return "gostring" }

type mLang string

func (l mLang) String() string { return "language " + string(l) }

type mLevel int

func (l mLevel) String() string { return "LEVEL" }

type mRatio float64

func (r mRatio) String() string { return "ratio" }

type mFlag bool

func (f mFlag) String() string { return "flag" }

type mBag struct {
	Tags  []string
	Items []any
	Attrs map[string]string
	Any   map[string]any
	Ptr   *[]int
}

// types for embedded fields (package level: embedding needs named types)
type EmbBase struct {
	ID  int
	Tag string
}
type embInner struct {
	Secret string
	Pub    int
}
type embUser struct {
	EmbBase
	Name string
}
type embW struct {
	embInner
	Name string
}
type embW2 struct {
	*embInner
	*EmbBase
	Name string
}

func gvNamed(idx int64) *GV { return &GV{K: "NT", I: idx} }

// a named string type, as applications use for map keys (type lang string)
type namedKey string

// commonElemType: the one static type all (non-nil, scalar) values share, or nil
func commonElemType(vals []any) reflect.Type {
	var t reflect.Type
	for _, v := range vals {
		if v == nil {
			return nil
		}
		vt := reflect.TypeOf(v)
		switch vt.Kind() {
		case reflect.String, reflect.Bool, reflect.Float32, reflect.Float64,
			reflect.Int, reflect.Int8, reflect.Int16, reflect.Int32, reflect.Int64,
			reflect.Uint, reflect.Uint8, reflect.Uint16, reflect.Uint32, reflect.Uint64:
		default:
			return nil
		}
		if t == nil {
			t = vt
		} else if t != vt {
			return nil
		}
	}
	return t
}

// parse a term back (used by workers: they receive the term, not Go values)
type term struct {
	atom string
	list []*term
}

func parseTerm(s string) *term {
	pos := 0
	var rec func() []*term
	rec = func() []*term {
		var out []*term
		for pos < len(s) {
			switch s[pos] {
			case ' ':
				pos++
			case ')':
				pos++
				return out
			case '(':
				pos++
				out = append(out, &term{list: rec()})
			default:
				st := pos
				for pos < len(s) && s[pos] != ' ' && s[pos] != '(' && s[pos] != ')' {
					pos++
				}
				out = append(out, &term{atom: s[st:pos]})
			}
		}
		return out
	}
	ts := rec()
	if len(ts) == 1 {
		return ts[0]
	}
	return &term{list: ts}
}

func termToGV(t *term) *GV {
	if t.list == nil {
		switch t.atom {
		case "N":
			return gvNil()
		case "PN":
			return &GV{K: "PN"}
		}
		return &GV{K: "O", Other: "bad"}
	}
	if len(t.list) == 0 {
		return &GV{K: "O", Other: "bad"}
	}
	head := t.list[0].atom
	args := t.list[1:]
	switch head {
	case "B":
		return gvBool(args[0].atom == "1")
	case "I":
		// "(I v)" or "(I v kind)"
		v, _ := strconv.ParseInt(args[0].atom, 10, 64)
		g := gvInt(v)
		if len(args) > 1 {
			k, _ := strconv.Atoi(args[1].atom)
			g.IKind = reflect.Kind(k)
		}
		return g
	case "F":
		bits, _ := strconv.ParseUint(args[0].atom, 16, 64)
		g := gvFloat(math.Float64frombits(bits))
		if len(args) > 1 && args[1].atom == "32" {
			g.F32 = true
		}
		return g
	case "S":
		return gvStr(unhx(args[0].atom))
	case "P":
		return &GV{K: "P", Elems: []*GV{termToGV(args[0])}}
	case "L":
		g := &GV{K: "L"}
		for _, a := range args {
			if a.list == nil && a.atom == "nilref" {
				g.NilRef = true
				continue
			}
			if a.list == nil && a.atom == "typed" {
				g.Typed = true
				continue
			}
			g.Elems = append(g.Elems, termToGV(a))
		}
		return g
	case "M":
		g := &GV{K: "M"}
		for len(args) > 0 && args[0].list == nil && (args[0].atom == "nilref" || args[0].atom == "typed" || args[0].atom == "nkey" || args[0].atom == "akey") {
			switch args[0].atom {
			case "nilref":
				g.NilRef = true
			case "typed":
				g.Typed = true
			case "nkey":
				g.NKey = true
			case "akey":
				g.AKey = true
			}
			args = args[1:]
		}
		for i := 0; i+1 < len(args); i += 2 {
			g.Keys = append(g.Keys, unhx(args[i].atom))
			g.Elems = append(g.Elems, termToGV(args[i+1]))
		}
		return g
	case "T":
		g := &GV{K: "T"}
		for i := 0; i+2 < len(args); i += 3 {
			g.Keys = append(g.Keys, unhx(args[i].atom))
			g.Export = append(g.Export, args[i+1].atom == "1")
			g.Elems = append(g.Elems, termToGV(args[i+2]))
		}
		return g
	case "O":
		return &GV{K: "O", Other: args[0].atom}
	case "NT":
		n, _ := strconv.ParseInt(args[0].atom, 10, 64)
		return &GV{K: "NT", I: n}
	}
	return &GV{K: "O", Other: "bad"}
}

// Realise builds the Go value. Integers use g.IKind; structs are built with reflect.StructOf.
func (g *GV) Realise() any {
	switch g.K {
	case "N":
		return nil
	case "PN":
		var p *int
		return p
	case "B":
		return g.B
	case "I":
		switch g.IKind {
		case reflect.Int:
			return int(g.I)
		case reflect.Int8:
			return int8(g.I)
		case reflect.Int16:
			return int16(g.I)
		case reflect.Int32:
			return int32(g.I)
		case reflect.Uint:
			return uint(g.I)
		case reflect.Uint8:
			return uint8(g.I)
		case reflect.Uint16:
			return uint16(g.I)
		case reflect.Uint32:
			return uint32(g.I)
		case reflect.Uint64:
			return uint64(g.I)
		}
		return g.I
	case "F":
		if g.F32 {
			return float32(g.F)
		}
		return g.F
	case "S":
		return g.S
	case "P":
		inner := g.Elems[0].Realise()
		if inner == nil {
			var x any
			return &x
		}
		pv := reflect.New(reflect.TypeOf(inner))
		pv.Elem().Set(reflect.ValueOf(inner))
		return pv.Interface()
	case "L":
		if g.NilRef {
			if g.Typed {
				var s []string
				return s
			}
			var s []any
			return s
		}
		out := make([]any, 0, len(g.Elems))
		for _, e := range g.Elems {
			out = append(out, e.Realise())
		}
		if et := commonElemType(out); g.Typed && et != nil {
			sl := reflect.MakeSlice(reflect.SliceOf(et), 0, len(out))
			for _, v := range out {
				sl = reflect.Append(sl, reflect.ValueOf(v))
			}
			return sl.Interface()
		}
		return out
	case "M":
		if g.NilRef {
			if g.Typed {
				var m map[string]int
				return m
			}
			var m map[string]any
			return m
		}
		vals := make([]any, 0, len(g.Elems))
		for _, e := range g.Elems {
			vals = append(vals, e.Realise())
		}
		kt := reflect.TypeOf("")
		if g.NKey {
			kt = reflect.TypeOf(namedKey(""))
		}
		if g.AKey {
			kt = reflect.TypeOf((*any)(nil)).Elem()
		}
		vt := reflect.TypeOf((*any)(nil)).Elem()
		if et := commonElemType(vals); g.Typed && et != nil {
			vt = et
		}
		if !g.NKey && !g.AKey && !(g.Typed && vt.Kind() != reflect.Interface) {
			out := map[string]any{}
			for i, v := range vals {
				out[g.Keys[i]] = v
			}
			return out
		}
		m := reflect.MakeMapWithSize(reflect.MapOf(kt, vt), len(vals))
		for i, v := range vals {
			kv := reflect.ValueOf(g.Keys[i])
			if !g.AKey {
				kv = kv.Convert(kt)
			}
			var vv reflect.Value
			if v == nil {
				vv = reflect.Zero(vt)
			} else {
				vv = reflect.ValueOf(v)
			}
			m.SetMapIndex(kv, vv)
		}
		return m.Interface()
	case "T":
		var fields []reflect.StructField
		var vals []any
		for i, e := range g.Elems {
			v := e.Realise()
			var ft reflect.Type
			if v == nil {
				ft = reflect.TypeOf((*any)(nil)).Elem()
			} else {
				ft = reflect.TypeOf(v)
			}
			sf := reflect.StructField{Name: g.Keys[i], Type: ft}
			if !g.Export[i] {
				sf.PkgPath = "verif/x"
			}
			fields = append(fields, sf)
			vals = append(vals, v)
		}
		st := reflect.New(reflect.StructOf(fields)).Elem()
		for i, v := range vals {
			if v != nil && g.Export[i] {
				st.Field(i).Set(reflect.ValueOf(v))
			}
		}
		return st.Interface()
	case "NT":
		return namedStruct(g.I)
	case "O":
		switch g.Other {
		case "chan":
			return make(chan int)
		case "func":
			return func() {}
		case "array":
			return [2]int{1, 2}
		case "complex":
			return complex(1, 2)
		case "intkeymap":
			return map[int]string{1: "a", 2: "b", 3: "c"}
		case "boolkeymap":
			return map[bool]int{true: 1, false: 2}
		case "mixedkeymap":
			return map[any]int{"s": 1, 2: 2}
		case "structkeymap":
			return map[[2]int]string{{1, 2}: "p", {3, 4}: "q"}
		case "emptyintkeymap":
			return map[int]string{}
		case "floatkeymap":
			return map[float64]bool{1.5: true, 2.5: false}
		}
		return make(chan int)
	}
	return nil
}

// hasOther: the value contains a chan / func / … (not comparable with DeepEqual)
func (g *GV) hasOther() bool {
	if g == nil {
		return false
	}
	if g.K == "O" {
		return true
	}
	for _, e := range g.Elems {
		if e.hasOther() {
			return true
		}
	}
	return false
}

// hasOtherReachable: an unsupported kind outside of unexported struct fields
func (g *GV) hasOtherReachable() bool {
	if g == nil {
		return false
	}
	if g.K == "O" {
		return true
	}
	for i, e := range g.Elems {
		if g.K == "T" && !g.Export[i] {
			continue
		}
		if e.hasOtherReachable() {
			return true
		}
	}
	return false
}

func (g *GV) DataMap() map[string]any {
	if g == nil || g.K != "M" {
		return nil
	}
	out := map[string]any{}
	for i, e := range g.Elems {
		out[g.Keys[i]] = e.Realise()
	}
	return out
}

// ---- canonical results

var errRe = regexp.MustCompile(`(?s)^\[Textwire ERROR(?: in (.*?))?:(\d+)\]:\n(.*)$`)

// canonErr turns the text of an error returned by the implementation into
// "ERR <line> <path-hex> <msg-hex>"; cwd-relative paths.
func canonErr(msg string, cwd string) string {
	m := errRe.FindStringSubmatch(msg)
	if m == nil {
		return "ERRTEXT " + hx(msg)
	}
	return canonFail(m[2], m[1], m[3], cwd)
}

var osErrWords = []string{"no such file or directory", "is a directory", "permission denied", "too many levels of symbolic links", "not a directory", "file name too long"}

func canonFail(line, path, msg, cwd string) string {
	rel := relPath(path, cwd)
	for _, w := range osErrWords {
		if strings.HasSuffix(msg, w) {
			return fmt.Sprintf("OSERR %s %s", line, hx(rel))
		}
	}
	return fmt.Sprintf("ERR %s %s %s", line, hx(rel), hx(msg))
}

func relPath(path, cwd string) string {
	if path == "" || cwd == "" {
		return path
	}
	if path == cwd {
		return "."
	}
	if strings.HasPrefix(path, cwd+"/") {
		return path[len(cwd)+1:]
	}
	// above the working directory: express with ".." segments
	cs := strings.Split(strings.Trim(cwd, "/"), "/")
	ps := strings.Split(strings.Trim(path, "/"), "/")
	i := 0
	for i < len(cs) && i < len(ps) && cs[i] == ps[i] {
		i++
	}
	var out []string
	for j := i; j < len(cs); j++ {
		out = append(out, "..")
	}
	out = append(out, ps[i:]...)
	return strings.Join(out, "/")
}

// sameResult compares an implementation answer with a model answer; the model may contain
// the wildcard 00 54 00 (what Go prints for %T) inside a hex-encoded message.
func sameResult(impl, model string) bool {
	if impl == model {
		return true
	}
	if !strings.Contains(model, "005400") {
		return false
	}
	fi, fm := strings.Fields(impl), strings.Fields(model)
	if len(fi) != len(fm) {
		return false
	}
	for i := range fi {
		if fi[i] == fm[i] {
			continue
		}
		if !strings.Contains(fm[i], "005400") {
			return false
		}
		parts := strings.Split(unhx(fm[i]), "\x00T\x00")
		var q []string
		for _, p := range parts {
			q = append(q, regexp.QuoteMeta(p))
		}
		re, err := regexp.Compile("(?s)^" + strings.Join(q, ".*") + "$")
		if err != nil || !re.MatchString(unhx(fi[i])) {
			return false
		}
	}
	return true
}

func sortedKeys[V any](m map[string]V) []string {
	ks := make([]string, 0, len(m))
	for k := range m {
		ks = append(ks, k)
	}
	sort.Strings(ks)
	return ks
}
