package main

// Generator library: one splitmix64 stream per run, expression trees with a precedence-aware
// printer and several layouts, statement/template builders.

import (
	"fmt"
	"math"
	"strconv"
	"strings"
)

type Gen struct {
	s    uint64
	tier string
}

func newGen(seed int64, tier string) *Gen { return &Gen{s: uint64(seed)*0x9E3779B97F4A7C15 + 0x1234567, tier: tier} }

func (g *Gen) u64() uint64 {
	g.s += 0x9E3779B97F4A7C15
	z := g.s
	z = (z ^ (z >> 30)) * 0xBF58476D1CE4E5B9
	z = (z ^ (z >> 27)) * 0x94D049BB133111EB
	return z ^ (z >> 31)
}
func (g *Gen) n(k int) int {
	if k <= 0 {
		return 0
	}
	return int(g.u64() % uint64(k))
}
func (g *Gen) chance(num, den int) bool { return g.n(den) < num }
func (g *Gen) pick(xs []string) string   { return xs[g.n(len(xs))] }
func (g *Gen) thorough() bool            { return g.tier == "thorough" }
func (g *Gen) scale(quick, thorough int) int {
	if g.thorough() {
		return thorough
	}
	return quick
}

// ---------------------------------------------------------------------------------------------
// expression trees

type E struct {
	K    string // int float str bool nil var neg not inc dec bin tern idx dot call arr obj
	I    int64
	F    float64
	S    string // str value / var name / operator / key / function name
	B    bool
	Kids []*E
	Keys []string // obj
}

func eInt(i int64) *E            { return &E{K: "int", I: i} }
func eFloat(f float64) *E        { return &E{K: "float", F: f} }
func eStr(s string) *E           { return &E{K: "str", S: s} }
func eBool(b bool) *E            { return &E{K: "bool", B: b} }
func eVar(n string) *E           { return &E{K: "var", S: n} }
func eBin(op string, l, r *E) *E { return &E{K: "bin", S: op, Kids: []*E{l, r}} }
func eUn(k string, x *E) *E      { return &E{K: k, Kids: []*E{x}} }
func eTern(c, a, b *E) *E        { return &E{K: "tern", Kids: []*E{c, a, b}} }
func eIdx(l, i *E) *E            { return &E{K: "idx", Kids: []*E{l, i}} }
func eDot(l *E, k string) *E     { return &E{K: "dot", S: k, Kids: []*E{l}} }
func eCall(r *E, f string, args ...*E) *E {
	return &E{K: "call", S: f, Kids: append([]*E{r}, args...)}
}
func eArr(xs ...*E) *E { return &E{K: "arr", Kids: xs} }

var binPrec = map[string]int{"==": 3, "!=": 3, "<": 4, ">": 4, "<=": 4, ">=": 4, "+": 5, "-": 5, "*": 6, "/": 6, "%": 6}

const (
	pLOWEST  = 1
	pTERNARY = 2
	pMEMBER  = 7
	pPREFIX  = 8
	pINDEX   = 10
	pPOSTFIX = 11
	pATOM    = 12
)

func (e *E) level() int {
	switch e.K {
	case "bin":
		return binPrec[e.S]
	case "tern":
		return pTERNARY
	case "neg", "not":
		return pPREFIX
	case "inc", "dec":
		return pPOSTFIX
	case "idx":
		return pINDEX
	case "dot", "call":
		return pMEMBER
	case "int":
		if e.I < 0 {
			return pPREFIX // printed as -n
		}
	case "float":
		if e.F < 0 || (e.F == 0 && math.Signbit(e.F)) {
			return pPREFIX
		}
	}
	return pATOM
}

// spineMin: the lowest precedence among the operators on the left spine
func (e *E) spineMin() int {
	l := e.level()
	switch e.K {
	case "bin", "inc", "dec", "idx", "dot", "call", "tern":
		if s := e.Kids[0].spineMinAsLeft(e); s < l {
			return s
		}
	}
	return l
}

// a left child that will be parenthesised does not contribute
func (e *E) spineMinAsLeft(parent *E) int {
	if parent.needParensLeft(e) {
		return pATOM
	}
	return e.spineMin()
}

func (p *E) needParensLeft(l *E) bool {
	if p.K == "tern" {
		return l.level() <= pTERNARY
	}
	return l.level() < p.level()
}

// tokens of the expression in a context of binding power ctx; style: 0 minimal, 1 full
// parentheses, 2 random redundant parentheses
func (e *E) toks(ctx int, style int, g *Gen) []string {
	body := e.body(ctx, style, g)
	need := e.spineMin() <= ctx
	extra := style == 1 || (style == 2 && g.chance(1, 4))
	if need || extra {
		inner := body
		if need {
			inner = e.body(pLOWEST, style, g)
		}
		out := append([]string{"("}, inner...)
		out = append(out, ")")
		if style == 2 && g.chance(1, 6) {
			out = append(append([]string{"("}, out...), ")")
		}
		return out
	}
	return body
}

func (e *E) left(l *E, ctx, style int, g *Gen) []string {
	if e.needParensLeft(l) {
		return append(append([]string{"("}, l.body(pLOWEST, style, g)...), ")")
	}
	b := l.body(ctx, style, g)
	if style == 1 || (style == 2 && g.chance(1, 4)) {
		return append(append([]string{"("}, b...), ")")
	}
	return b
}

func quoteLit(s string, q byte) string {
	var sb strings.Builder
	sb.WriteByte(q)
	for i := 0; i < len(s); i++ {
		if s[i] == q {
			sb.WriteByte('\\')
		}
		sb.WriteByte(s[i])
	}
	sb.WriteByte(q)
	return sb.String()
}

func fmtFloatLit(f float64) string {
	s := strconv.FormatFloat(math.Abs(f), 'f', -1, 64)
	if !strings.Contains(s, ".") {
		s += ".0"
	}
	return s
}

func (e *E) body(ctx int, style int, g *Gen) []string {
	switch e.K {
	case "int":
		if e.I < 0 {
			if e.I == math.MinInt64 {
				// -9223372036854775808 is not a literal: 0 - 9223372036854775807 - 1
				return []string{"(", "0", "-", "9223372036854775807", "-", "1", ")"}
			}
			return []string{"-", strconv.FormatInt(-e.I, 10)}
		}
		return []string{strconv.FormatInt(e.I, 10)}
	case "float":
		if e.F < 0 || (e.F == 0 && math.Signbit(e.F)) {
			return []string{"-", fmtFloatLit(e.F)}
		}
		return []string{fmtFloatLit(e.F)}
	case "str":
		q := byte('"')
		if g != nil && g.chance(1, 3) {
			q = '\''
		}
		return []string{quoteLit(e.S, q)}
	case "bool":
		if e.B {
			return []string{"true"}
		}
		return []string{"false"}
	case "nil":
		return []string{"nil"}
	case "var":
		return []string{e.S}
	case "neg":
		return append([]string{"-"}, e.Kids[0].toks(pPREFIX, style, g)...)
	case "not":
		return append([]string{"!"}, e.Kids[0].toks(pPREFIX, style, g)...)
	case "inc":
		return append(e.left(e.Kids[0], ctx, style, g), "++")
	case "dec":
		return append(e.left(e.Kids[0], ctx, style, g), "--")
	case "bin":
		p := binPrec[e.S]
		out := e.left(e.Kids[0], ctx, style, g)
		out = append(out, e.S)
		return append(out, e.Kids[1].toks(p, style, g)...)
	case "tern":
		out := e.left(e.Kids[0], ctx, style, g)
		out = append(out, "?")
		out = append(out, e.Kids[1].toks(pTERNARY, style, g)...)
		out = append(out, ":")
		return append(out, e.Kids[2].toks(pLOWEST, style, g)...)
	case "idx":
		out := e.left(e.Kids[0], ctx, style, g)
		out = append(out, "[")
		out = append(out, e.Kids[1].toks(pLOWEST, style, g)...)
		return append(out, "]")
	case "dot":
		out := e.left(e.Kids[0], ctx, style, g)
		return append(out, ".", e.S)
	case "call":
		out := e.left(e.Kids[0], ctx, style, g)
		out = append(out, ".", e.S, "(")
		for i, a := range e.Kids[1:] {
			if i > 0 {
				out = append(out, ",")
			}
			out = append(out, a.toks(pLOWEST, style, g)...)
		}
		return append(out, ")")
	case "arr":
		out := []string{"["}
		for i, a := range e.Kids {
			if i > 0 {
				out = append(out, ",")
			}
			out = append(out, a.toks(pLOWEST, style, g)...)
		}
		return append(out, "]")
	case "obj":
		out := []string{"{"}
		for i, a := range e.Kids {
			if i > 0 {
				out = append(out, ",")
			}
			out = append(out, e.Keys[i], ":")
			out = append(out, a.toks(pLOWEST, style, g)...)
		}
		return append(out, "}")
	}
	return []string{"?"}
}

func isWordByte(c byte) bool {
	return c == '_' || (c >= '0' && c <= '9') || (c >= 'a' && c <= 'z') || (c >= 'A' && c <= 'Z')
}

// needSep: would the two tokens fuse (or change meaning) when written without a separator
func needSep(a, b string) bool {
	if a == "" || b == "" {
		return false
	}
	x, y := a[len(a)-1], b[0]
	if isWordByte(x) && isWordByte(y) {
		return true
	}
	switch {
	case x == '-' && y == '-', x == '+' && y == '+':
		return true
	case (x == '=' || x == '!' || x == '<' || x == '>') && y == '=':
		return true
	case x >= '0' && x <= '9' && y == '.', x == '.' && y >= '0' && y <= '9':
		return true
	case x == '{' && y == '{', x == '}' && y == '}':
		return true
	case x == '{' && y == '-': // "{{" followed by "--" would open a comment
		return true
	}
	return false
}

// layout: 0 single spaces, 1 compact, 2 random whitespace incl. newlines
func joinToks(ts []string, layout int, g *Gen) string {
	var sb strings.Builder
	for i, t := range ts {
		if i > 0 {
			switch layout {
			case 0:
				sb.WriteByte(' ')
			case 1:
				if needSep(ts[i-1], t) {
					sb.WriteByte(' ')
				}
			default:
				n := g.n(3)
				if n == 0 && needSep(ts[i-1], t) {
					n = 1
				}
				for k := 0; k < n; k++ {
					sb.WriteString(g.pick([]string{" ", " ", "\n", "\t", "\r\n", "  "}))
				}
			}
		}
		sb.WriteString(t)
	}
	return sb.String()
}

func (e *E) src(style, layout int, g *Gen) string {
	return joinToks(e.toks(pLOWEST, style, g), layout, g)
}

// term for the specification oracle
func (e *E) term() string {
	kids := func() string {
		var sb strings.Builder
		for _, k := range e.Kids {
			sb.WriteString(" " + k.term())
		}
		return sb.String()
	}
	switch e.K {
	case "int":
		return fmt.Sprintf("(i %d)", e.I)
	case "float":
		return fmt.Sprintf("(f %016x)", math.Float64bits(e.F))
	case "str":
		return "(s " + hx(e.S) + ")"
	case "bool":
		if e.B {
			return "(b 1)"
		}
		return "(b 0)"
	case "nil":
		return "n"
	case "var":
		return "(v " + hx(e.S) + ")"
	case "bin":
		return "(bin " + hx(e.S) + kids() + ")"
	case "dot":
		return "(dot " + hx(e.S) + kids() + ")"
	case "call":
		return "(call " + hx(e.S) + kids() + ")"
	case "obj":
		var sb strings.Builder
		sb.WriteString("(obj")
		for i, k := range e.Kids {
			sb.WriteString(" " + hx(e.Keys[i]) + " " + k.term())
		}
		return sb.String() + ")"
	}
	return "(" + e.K + kids() + ")"
}

// ---------------------------------------------------------------------------------------------
// typed random expressions

type Scope struct {
	vars map[string][]string // type -> variable names
	data *GV
}

func stdScope() *Scope {
	sc := &Scope{vars: map[string][]string{}, data: gvMap()}
	add := func(ty, name string, v *GV) {
		sc.vars[ty] = append(sc.vars[ty], name)
		sc.data.Keys = append(sc.data.Keys, name)
		sc.data.Elems = append(sc.data.Elems, v)
	}
	add("int", "i0", gvInt(0))
	add("int", "i1", gvInt(1))
	add("int", "i7", gvInt(7))
	add("int", "im", gvInt(-3))
	add("int", "imax", gvInt(math.MaxInt64))
	add("int", "imin", gvInt(math.MinInt64))
	add("float", "f0", gvFloat(0))
	add("float", "f1", gvFloat(1.5))
	add("float", "fm", gvFloat(-2.25))
	add("str", "s0", gvStr(""))
	add("str", "s1", gvStr("ab"))
	add("str", "s2", gvStr("héllo <b>"))
	add("bool", "bt", gvBool(true))
	add("bool", "bf", gvBool(false))
	add("arr", "a3", gvList(gvInt(10), gvInt(20), gvInt(30)))
	add("arr", "a0", gvList())
	add("obj", "o1", gvMap("name", gvStr("Ann"), "age", gvInt(30), "Tags", gvList(gvStr("x"))))
	add("nil", "nn", gvNil())
	// names that start with a keyword and go on with digits or letters are ordinary names
	add("int", "in2", gvInt(4))
	add("bool", "true1", gvBool(false))
	add("bool", "false0", gvBool(true))
	add("str", "nil7", gvStr("n7"))
	add("int", "index", gvInt(2))
	add("str", "endless", gvStr("e"))
	add("int", "in_2", gvInt(6))
	add("float", "elsewhere9", gvFloat(2.5))
	return sc
}

var intLits = []int64{0, 1, 2, 3, 5, 7, 10, 100, -1, -4, math.MaxInt64, math.MinInt64, 4611686018427387904}
var floatLits = []float64{0, 0.5, 1.5, 2.25, 3.0, 10.75, -0.5, -1.25, 100.125, 0.1, 0.2}
var strLits = []string{"", "a", "ab", "x y", "<b>", "a&b", "é", "it's", `q"q`}

func (g *Gen) expr(sc *Scope, ty string, depth int) *E {
	if depth <= 0 || g.chance(1, 5) {
		return g.leaf(sc, ty)
	}
	d := depth - 1
	switch ty {
	case "int":
		switch g.n(10) {
		case 0, 1, 2, 3, 4:
			return eBin(g.pick([]string{"+", "-", "*", "/", "%", "+", "-", "*"}), g.expr(sc, "int", d), g.expr(sc, "int", d))
		case 5:
			return eUn("neg", g.expr(sc, "int", d))
		case 6:
			return eUn(g.pick([]string{"inc", "dec"}), g.expr(sc, "int", d))
		case 7:
			return eTern(g.expr(sc, "bool", d), g.expr(sc, "int", d), g.expr(sc, "int", d))
		case 8:
			return eIdx(g.expr(sc, "arr", d), g.expr(sc, "int", d))
		default:
			return eCall(g.expr(sc, g.pick([]string{"str", "arr", "int"}), d), "len")
		}
	case "float":
		switch g.n(6) {
		case 0, 1, 2:
			return eBin(g.pick([]string{"+", "-", "*", "/"}), g.expr(sc, "float", d), g.expr(sc, "float", d))
		case 3:
			return eUn("neg", g.expr(sc, "float", d))
		case 4:
			return eUn(g.pick([]string{"inc", "dec"}), g.expr(sc, "float", d))
		default:
			return eTern(g.expr(sc, "bool", d), g.expr(sc, "float", d), g.expr(sc, "float", d))
		}
	case "str":
		switch g.n(5) {
		case 0, 1:
			return eBin("+", g.expr(sc, "str", d), g.expr(sc, "str", d))
		case 2:
			return eTern(g.expr(sc, "bool", d), g.expr(sc, "str", d), g.expr(sc, "str", d))
		case 3:
			return eCall(g.expr(sc, "str", d), g.pick([]string{"upper", "lower", "reverse", "trim"}))
		default:
			return eDot(eVar("o1"), "name")
		}
	case "bool":
		switch g.n(6) {
		case 0, 1:
			t := g.pick([]string{"int", "float"})
			return eBin(g.pick([]string{"==", "!=", "<", ">", "<=", ">="}), g.expr(sc, t, d), g.expr(sc, t, d))
		case 2:
			return eBin(g.pick([]string{"==", "!="}), g.expr(sc, "str", d), g.expr(sc, "str", d))
		case 3:
			return eUn("not", g.expr(sc, "bool", d))
		case 4:
			return eTern(g.expr(sc, "bool", d), g.expr(sc, "bool", d), g.expr(sc, "bool", d))
		default:
			return eCall(g.expr(sc, "str", d), "contains", g.expr(sc, "str", d))
		}
	case "arr":
		if g.chance(1, 2) {
			n := g.n(4)
			var xs []*E
			for i := 0; i < n; i++ {
				xs = append(xs, g.expr(sc, "int", d))
			}
			return eArr(xs...)
		}
	}
	return g.leaf(sc, ty)
}

func (g *Gen) leaf(sc *Scope, ty string) *E {
	if vs := sc.vars[ty]; len(vs) > 0 && g.chance(1, 2) {
		return eVar(g.pick(vs))
	}
	switch ty {
	case "int":
		return eInt(intLits[g.n(len(intLits))])
	case "float":
		return eFloat(floatLits[g.n(len(floatLits))])
	case "str":
		return eStr(strLits[g.n(len(strLits))])
	case "bool":
		return eBool(g.chance(1, 2))
	case "arr":
		return eArr(eInt(1), eInt(2))
	case "nil":
		return &E{K: "nil"}
	}
	if vs := sc.vars[ty]; len(vs) > 0 {
		return eVar(g.pick(vs))
	}
	return &E{K: "nil"}
}

// an expression of any type (for untyped / error-rich generation)
func (g *Gen) anyExpr(sc *Scope, depth int) *E {
	tys := []string{"int", "float", "str", "bool", "arr", "obj", "nil"}
	if depth <= 0 || g.chance(1, 4) {
		return g.leaf(sc, g.pick(tys))
	}
	d := depth - 1
	switch g.n(12) {
	case 0, 1, 2:
		ops := []string{"+", "-", "*", "/", "%", "==", "!=", "<", ">", "<=", ">="}
		return eBin(g.pick(ops), g.anyExpr(sc, d), g.anyExpr(sc, d))
	case 3:
		return eUn(g.pick([]string{"neg", "not", "inc", "dec"}), g.anyExpr(sc, d))
	case 4:
		return eTern(g.anyExpr(sc, d), g.anyExpr(sc, d), g.anyExpr(sc, d))
	case 5:
		return eIdx(g.anyExpr(sc, d), g.anyExpr(sc, d))
	case 6:
		return eDot(g.anyExpr(sc, d), g.pick([]string{"name", "age", "x", "Tags", "len"}))
	case 7, 8:
		fn := g.pick(allBuiltinNames)
		n := g.n(3)
		var args []*E
		for i := 0; i < n; i++ {
			args = append(args, g.anyExpr(sc, d))
		}
		return eCall(g.anyExpr(sc, d), fn, args...)
	case 9:
		n := g.n(3)
		var xs []*E
		for i := 0; i < n; i++ {
			xs = append(xs, g.anyExpr(sc, d))
		}
		return eArr(xs...)
	case 10:
		o := &E{K: "obj"}
		n := g.n(3)
		for i := 0; i < n; i++ {
			k := g.pick([]string{"a", "b", "name", "k"})
			if containsStr(o.Keys, k) { // duplicate keys are outside every statement
				continue
			}
			o.Keys = append(o.Keys, k)
			o.Kids = append(o.Kids, g.anyExpr(sc, d))
		}
		return o
	}
	return g.expr(sc, g.pick([]string{"int", "float", "str", "bool"}), d)
}

var allBuiltinNames = []string{"len", "split", "raw", "trim", "trimRight", "trimLeft", "upper", "lower", "capitalize", "reverse",
	"contains", "truncate", "decimal", "at", "first", "last", "repeat", "join", "rand", "slice", "append", "prepend",
	"int", "str", "abs", "ceil", "floor", "round", "float", "binary", "then", "nosuch"}
